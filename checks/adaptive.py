"""C18: adaptive operator selection and termination mathematics against spec/Adaptive.tla.  TLC checks the slot machine model (exact
integer units) for all reward histories up to 4 and generates: exact histories with the expected state, palette histories (indices
into a float table from 0 and a denormal to 1e9), fitness histories for the variation criterion with the model verdict per generation,
generation counters for the progress estimate, and selector configurations.  harness bin `adaptive` drives the real SlotMachine,
MinVariation, MaxGeneration and DynamicSelective; JudgeAdaptive.tla decides."""
import collections, copy, json, os, time
from vlib import common
from vlib.common import ToolError

DEFAULT = {'n': 0, 'alpha2K': 0, 'b24K': 0, 'sK': 0, 'v24K': 0, 'finite': True, 'shapePositive': True, 'ratePositive': True, 'varianceOk': True, 'meanInHull': True, 'countOk': True,
           'sampleOk': True, 'samplerArgsOk': True, 'fired': [], 'estimates': [], 'picksInRange': True, 'oneCallPerSearch': True, 'picks': 0, 'rewards': 0, 'rewardsFinite': True, 'rewardsInRange': True}
CASE_DEFAULT = {'exp': {'n': 0, 'alpha2': 0, 'B24': 0, 'S': 0}, 'tie': [], 'gens': [], 'limit': 1, 'steps': 0}


def run(pid, tier):
    t0 = time.time()
    d = common.workdir(pid + '-ad')
    mc = common.tlc('Adaptive', cfg='MC_Adaptive.cfg', workers=2, name=pid + '-mc', timeout=1800, coverage=True)
    if mc.rc != 0 or mc.invariant_violated:
        raise ToolError('Adaptive model violates its own properties: see work/tlc-%s-mc.log' % pid)
    fc, fr = os.path.join(d, 'cases.ndjson'), os.path.join(d, 'results.ndjson')
    gen = common.tlc('GenAdaptive', env={'OUTFILE': fc, 'TIER': tier, 'SEED': common.seed()}, workers=1, name=pid + '-gen', timeout=3000, xmx='8g')
    if gen.rc != 0 or 'GENERATED' not in gen.out:
        raise ToolError('GenAdaptive failed: see work/tlc-%s-gen.log' % pid)
    cases = common.read_ndjson(fc)
    common.run_bin('adaptive', ['--in', fc, '--out', fr], timeout=6000, log=os.path.join(d, 'harness.log'), package='vh-roso')
    res = common.read_ndjson(fr)
    if len(res) != len(cases):
        raise ToolError('harness answered %d of %d' % (len(res), len(cases)))
    recs = []
    for c, r in zip(cases, res):
        case = dict(CASE_DEFAULT); case.update(c['case'])
        if case['kind'] == 'minvar':
            pass
        elif 'exp' in c['case'] and case['kind'] != 'slot-exact':
            case['exp'] = CASE_DEFAULT['exp']
        if case['kind'] != 'minvar':
            case['exp'] = case['exp'] if case['kind'] == 'slot-exact' else []
            if case['kind'] != 'slot-exact':
                case['exp'] = []
        act = dict(DEFAULT); act.update({k: v for k, v in r.items() if k not in ('c', 'kind', 'detail', 'distinctPicked', 'maxRewardK')})
        # one record shape per kind keeps TLC's record access total
        recs.append({'id': '%s%d' % (case['kind'], c['c']), 'kind': case['kind'], 'case': case if case['kind'] in ('minvar',) else dict(case, exp=case['exp'] if case['kind'] == 'slot-exact' else {'n': 0, 'alpha2': 0, 'B24': 0, 'S': 0}), 'act': act})
    cans = []
    def first(kind, pred=lambda r: True):
        return next(r for r in recs if r['kind'] == kind and not r['act']['panic'] and pred(r))
    b = first('slot-exact', lambda r: r['case']['exp']['n'] >= 3)
    c = copy.deepcopy(b); c['act']['b24K'] += 50; cans.append((c, 'SlotAsModel'))
    c = copy.deepcopy(b); c['act']['sK'] -= 10000; cans.append((c, 'SlotAsModel'))
    c = copy.deepcopy(b); c['act']['panic'] = 'boom'; cans.append((c, 'NoPanic'))
    g = first('slot-palette')
    for flag, name in (('finite', 'SlotFinite'), ('shapePositive', 'SlotShapePositive'), ('ratePositive', 'SlotRatePositive'), ('varianceOk', 'SlotVarianceNonNegative'), ('meanInHull', 'SlotMeanInHull'), ('sampleOk', 'SlotSamplingWorks')):
        c = copy.deepcopy(g); c['act'][flag] = False; cans.append((c, name))
    m = first('minvar', lambda r: any(r['case']['exp']) and not any(r['case']['tie']))
    c = copy.deepcopy(m); c['act']['fired'] = [not x for x in c['act']['fired']]; cans.append((c, 'MinVariationAsModel'))
    e = first('estimate')
    c = copy.deepcopy(e); c['act']['estimates'][0]['inRange'] = False; cans.append((c, 'EstimateInRange'))
    c = copy.deepcopy(e); c['act']['estimates'][1]['estK'] += 500; cans.append((c, 'EstimateAsModel'))
    y = first('dyn')
    c = copy.deepcopy(y); c['act']['picksInRange'] = False; cans.append((c, 'SelectorPicksConfigured'))
    c = copy.deepcopy(y); c['act']['rewardsFinite'] = False; cans.append((c, 'RewardsFinite'))
    c = copy.deepcopy(y); c['act']['rewardsInRange'] = False; cans.append((c, 'RewardsInRange'))
    fj = os.path.join(d, 'judge.ndjson')
    common.write_ndjson(fj, recs + [c[0] for c in cans])
    jr = common.tlc('JudgeAdaptive', env={'RECS': fj}, workers=1, name=pid + '-judge', timeout=6000, xmx='8g')
    if jr.distinct != len(recs) + len(cans):
        raise ToolError('judge walked %d of %d' % (jr.distinct, len(recs) + len(cans)))
    got = collections.defaultdict(set)
    for name, idx, _ in jr.fails:
        got[int(idx)].add(name)
    for k, (c, expect) in enumerate(cans):
        if expect not in got[len(recs) + k + 1]:
            raise ToolError('judge vacuity: %s not rejected' % expect)
    verdict = common.Verdict(pid)
    differs = 0
    for name, idx, rid in jr.fails:
        i = int(idx)
        if i > len(recs):
            continue
        r = res[i - 1]
        if name == 'SlotAsModel':
            differs += 1        # conformance with the exact model of the posterior: reported, not a verdict (the statement asks for a valid state)
            continue
        verdict.add('C18/%s/%s' % (name, recs[i - 1]['kind']), 'case %s: %s -> %s' % (rid, json.dumps(cases[i - 1]['case'])[:250], json.dumps(r)[:350]), {'case': cases[i - 1]['case'], 'observed': r})
    rc = verdict.finish()
    kinds = collections.Counter(r['kind'] for r in recs)
    dyn = [r for r in res if r['kind'] == 'dyn' and not r.get('panic')]
    cov = {'states': mc.distinct + jr.distinct, 'transitions': mc.generated + jr.generated, 'traces_validated_against_impl': len(recs), 'evaluations': len(recs),
           'distinct_nontrivial': kinds['slot-exact'] + kinds['slot-palette'] + sum(1 for r in recs if r['kind'] == 'minvar' and any(r['case']['exp'])),
           'rule': 'one evaluation = one generated case run on the real object (a reward history on SlotMachine, a fitness history on MinVariation, a set of generation counters on MaxGeneration, a run of 40-1000 searches of DynamicSelective); non-trivial = reward histories and variation histories in which the criterion fires at least once',
           'samples': [{'case': cases[5]['case'], 'observed': res[5]}], 'exhaustive': False, 'cases_by_kind': dict(kinds), 'model_states': mc.distinct,
           'variation_windows_on_an_exact_tie_skipped': sum(sum(1 for t in r['case']['tie'] if t) for r in recs if r['kind'] == 'minvar'),
           'selector_searches': sum(r['picks'] for r in dyn), 'selector_max_reward': max([r['maxRewardK'] for r in dyn] or [0]) / 1000.0,
           'slot_states_differing_from_the_exact_model': differs, 'canaries_rejected': len(cans), 'known_finding_hits': {k: len(v) for k, v in verdict.known_hits.items()}}
    common.write_evidence(pid, tier, 'model_checking', cov, time.time() - t0, len(verdict.violations),
                          ['exact stratum: integer rewards {0,1,2,5}, up to 4 updates (the integer model is exact only there); palette stratum: the invariants are evaluated by the harness in f64 (TLC reads no floating point), hull tolerance 1e-12 * max(1, largest reward) (the running mean starts from the prior mean 1, so its rounding error is absolute at that scale); '
                           'variation criterion: sample windows only (the period variant depends on wall-clock time), windows whose verdict is an exact tie with the threshold are not compared; reward range: 0 .. 27 for two objectives (derived from the constants in dynamic_selective.rs)'])
    return rc
