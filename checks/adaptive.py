"""C18: adaptive operator selection and termination mathematics against spec/Adaptive.tla.  TLC checks the slot machine model (exact
integer units) for all reward histories up to 4 and generates: exact histories with the expected state, palette histories (indices
into a float table from 0 and a denormal to 1e9), fitness histories for the variation criterion with the model verdict per generation,
generation counters for the progress estimate, and selector configurations.  harness bin `adaptive` drives the real SlotMachine,
MinVariation, MaxGeneration and DynamicSelective; JudgeAdaptive.tla decides.  The numeric helpers underneath (median estimator, statistics,
relative distance, weighted / uniform / arg-max sampling, sampling iterators, noise) go through math_part: Remedian.tla (model-checked),
GenMath.tla, harness bin `mathutil`, JudgeMath.tla."""
import collections, copy, json, os, time
from vlib import common
from vlib.common import ToolError

DEFAULT = {'n': 0, 'alpha2K': 0, 'b24K': 0, 'sK': 0, 'v24K': 0, 'finite': True, 'shapePositive': True, 'ratePositive': True, 'varianceOk': True, 'meanInHull': True, 'countOk': True,
           'sampleOk': True, 'samplerArgsOk': True, 'fired': [], 'estimates': [], 'picksInRange': True, 'oneCallPerSearch': True, 'picks': 0, 'rewards': 0, 'rewardsFinite': True, 'rewardsInRange': True}
CASE_DEFAULT = {'exp': {'n': 0, 'alpha2': 0, 'B24': 0, 'S': 0}, 'tie': [], 'gens': [], 'limit': 1, 'steps': 0}


def math_part(pid, tier, d, verdict):
    """numeric helpers behind the selector and the termination criteria: spec/Remedian.tla is model-checked, GenMath.tla generates
    cases, harness bin `mathutil` runs the real helpers, JudgeMath.tla decides (definitions: MathUtil.tla)."""
    mc = common.tlc('Remedian', cfg='MC_Remedian_11.cfg' if tier == 'thorough' else 'MC_Remedian.cfg', workers=4, name=pid + '-mcr', timeout=1800, xmx='8g')
    if mc.rc != 0 or mc.invariant_violated or not mc.distinct:
        raise ToolError('Remedian model violates its own properties: see work/tlc-%s-mcr.log' % pid)
    fc, fr = os.path.join(d, 'math-cases.ndjson'), os.path.join(d, 'math-results.ndjson')
    gen = common.tlc('GenMath', cfg='GenAlgo.cfg', env={'OUTFILE': fc, 'TIER': tier, 'SEED': common.seed()}, workers=1, name=pid + '-genm', timeout=3000, xmx='8g')
    if gen.rc != 0 or 'GENERATED' not in gen.out:
        raise ToolError('GenMath failed: see work/tlc-%s-genm.log' % pid)
    cases = common.read_ndjson(fc)
    common.run_bin('mathutil', ['--in', fc, '--out', fr], timeout=3000, log=os.path.join(d, 'math-harness.log'), package='vh-roso')
    res = common.read_ndjson(fr)
    if len(res) != len(cases):
        raise ToolError('mathutil answered %d of %d' % (len(res), len(cases)))
    recs = [{'id': '%s%d' % (c['case']['kind'], c['c']), 'case': c['case'], 'act': {k: v for k, v in r.items() if k != 'c'}} for c, r in zip(cases, res)]
    cans = []
    def first(kind, pred=lambda r: True):
        return next(r for r in recs if r['case']['kind'] == kind and not r['act']['panic'] and pred(r))
    def can(rec, expect, fn):
        c = copy.deepcopy(rec); fn(c['act']); cans.append((c, expect))
    math_skip = False
    try:
        b = first('remedian', lambda r: r['case']['base'] == 3 and r['case']['exp'] >= 2 and len(r['case']['xs']) >= 9 and len(set(r['case']['xs'][:9])) >= 4)
        can(b, 'NoPanic', lambda a: a.update(panic='boom'))
        can(b, 'RemedianRefusesOnlyWhenFull', lambda a: a['added'].__setitem__(0, False))
        can(b, 'RemedianMedianObserved', lambda a: a['medians'].__setitem__(2, [99]))
        can(b, 'RemedianMedianObserved', lambda a: a['medians'].__setitem__(2, []))
        can(b, 'RemedianRankAtPowers', lambda a: a['medians'].__setitem__(8, [min(b['case']['xs'][:9])]))
        can(b, 'RemedianAsModel', lambda a: a['medians'].__setitem__(4, [max(b['case']['xs'][:5]) if a['medians'][4] != [max(b['case']['xs'][:5])] else min(b['case']['xs'][:5])]))
        st = first('stats', lambda r: len(set(r['case']['xs'])) >= 3)
        can(st, 'StatsMean', lambda a: a.update(mean4=a['mean4'] + 3))
        can(st, 'StatsVariance', lambda a: a.update(var4=a['var4'] + 3))
        can(st, 'StatsDeviation', lambda a: a.update(sd3=a['sd3'] + 3))
        can(st, 'StatsCv', lambda a: a.update(cv2=a['cv2'] + 3, cvSafe2=a['cvSafe2'] + 3))
        rd = first('reldist', lambda r: r['act']['d3'] > 0)
        can(rd, 'RelDistAsDefined', lambda a: a.update(d3=a['d3'] + 3, rev3=a['rev3'] + 3))
        can(rd, 'RelDistSymmetric', lambda a: a.update(rev3=a['rev3'] + 1))
        w = first('weighted', lambda r: 0 in r['case']['weights'] and len(r['case']['weights']) >= 2)
        zero = w['case']['weights'].index(0)
        can(w, 'WeightedPicksPositiveWeight', lambda a: a['draws'].__setitem__(5, zero))
        pos = next(i for i, x in enumerate(w['case']['weights']) if x > 0)
        other = next((i for i, x in enumerate(w['case']['weights']) if x > 0 and i != pos), pos)
        w2 = first('weighted', lambda r: sum(1 for x in r['case']['weights'] if x > 0) >= 2)
        keep = next(i for i, x in enumerate(w2['case']['weights']) if x > 0)
        can(w2, 'WeightedReachesEveryPositiveWeight', lambda a: a.update(draws=[keep] * len(a['draws'])))
        u = first('uniform', lambda r: r['case']['max'] > r['case']['min'])
        can(u, 'UniformIntInClosedRange', lambda a: a.update(draws=[x if x != u['case']['max'] else u['case']['min'] for x in a['draws']]))
        can(u, 'UniformIntInClosedRange', lambda a: a['draws'].__setitem__(0, u['case']['max'] + 1))
        can(u, 'UniformRealInRange', lambda a: a.update(realsInside=False))
        h = first('hit', lambda r: r['case']['p10'] == 0)
        can(h, 'HitRespectsCertainty', lambda a: a.update(hits=1))
        am = first('argmax', lambda r: len(r['case']['values']) >= 3 and len(set(r['case']['values'])) >= 2 and r['case']['values'].count(max(r['case']['values'])) >= 2)
        worst = am['case']['values'].index(min(am['case']['values']))
        can(am, 'ArgmaxPicksMaximum', lambda a: a['draws'].__setitem__(3, worst))
        can(am, 'ArgmaxReachesEveryMaximum', lambda a: a.update(draws=[a['draws'][0]] * len(a['draws'])))
        sm = first('sampling', lambda r: r['case']['n'] >= 5 and 2 <= r['case']['amount'] <= 4)
        can(sm, 'SamplingIsSubsequenceOfRightSize', lambda a: a['runs'].__setitem__(0, a['runs'][0][:-1]))
        can(sm, 'SamplingIsSubsequenceOfRightSize', lambda a: a['runs'].__setitem__(0, list(reversed(a['runs'][0]))))
        rg = first('range', lambda r: r['case']['n'] >= 6 and r['case']['size'] == 3)
        can(rg, 'RangeSamplingIsAlignedBlock', lambda a: a['runs'].__setitem__(0, [1, 2, 3]))
        se = first('search', lambda r: len(r['act']['evaluated']) >= 3)
        low = min(se['act']['evaluated'], key=lambda i: se['case']['data'][i])
        can(se, 'SearchReturnsBestProbed', lambda a: a.update(found=low) if se['case']['data'][low] < se['case']['data'][a['found']] else a.update(found=-1))
        can(se, 'SearchEvaluatesOnce', lambda a: a['evaluated'].append(a['evaluated'][0]))
        no = first('noise', lambda r: r['case']['p10'] == 0 and r['case']['value'] != 0)
        can(no, 'NoiseOffKeepsValue', lambda a: a['draws'].__setitem__(0, a['draws'][0] + 5))
        n1 = first('noise', lambda r: r['case']['p10'] == 10 and r['case']['value'] == 7 and r['case']['addition'])
        can(n1, 'NoiseWithinRange', lambda a: a['draws'].__setitem__(0, 7000 * 4))
    except StopIteration:
        math_skip = True
    fj = os.path.join(d, 'math-judge.ndjson')
    common.write_ndjson(fj, recs + [c[0] for c in cans])
    jr = common.tlc('JudgeMath', env={'RECS': fj}, workers=1, name=pid + '-judgem', timeout=6000, xmx='8g')
    if jr.distinct != len(recs) + len(cans):
        raise ToolError('math judge walked %d of %d' % (jr.distinct, len(recs) + len(cans)))
    got = collections.defaultdict(set)
    for name, idx, _ in jr.fails:
        got[int(idx)].add(name)
    for k, (c, expect) in enumerate(cans):
        if expect not in got[len(recs) + k + 1]:
            raise ToolError('math judge vacuity: %s not rejected' % expect)
    differs = 0
    for name, idx, rid in jr.fails:
        i = int(idx)
        if i > len(recs):
            continue
        if name == 'RemedianAsModel':
            differs += 1        # conformance with the transcription of the estimator; the verdicts are the contracts above it
            continue
        verdict.add('C18/%s/%s' % (name, recs[i - 1]['case']['kind']), 'case %s: %s -> %s' % (rid, json.dumps(cases[i - 1]['case'])[:250], json.dumps(res[i - 1])[:350]), {'case': cases[i - 1]['case'], 'observed': res[i - 1]})
    return {'model_states_remedian': mc.distinct, 'cases_by_kind': dict(collections.Counter(r['case']['kind'] for r in recs)), 'judged': len(recs), 'judge_states': jr.distinct,
            'remedian_estimates_differing_from_model': differs, 'canaries_rejected': len(cans), 'canaries_skipped': math_skip}


def run(pid, tier):
    t0 = time.time()
    d = common.workdir(pid + '-ad')
    mc = common.tlc('Adaptive', cfg='MC_Adaptive.cfg', workers=2, name=pid + '-mc', timeout=1800, coverage=True)
    if mc.rc != 0 or mc.invariant_violated:
        raise ToolError('Adaptive model violates its own properties: see work/tlc-%s-mc.log' % pid)
    fc, fr = os.path.join(d, 'cases.ndjson'), os.path.join(d, 'results.ndjson')
    gen = common.tlc('GenAdaptive', env={'OUTFILE': fc, 'TIER': tier, 'SEED': common.seed()}, workers=1, name=pid + '-gen', timeout=3000, xmx='8g')
    if gen.rc != 0 or 'GENERATED' not in gen.out:
        raise ToolError('GenAdaptive failed: see work/tlc-%s-gen.log' % pid)
    cases = common.read_ndjson(fc)
    common.run_bin('adaptive', ['--in', fc, '--out', fr], timeout=6000, log=os.path.join(d, 'harness.log'), package='vh-roso')
    res = common.read_ndjson(fr)
    if len(res) != len(cases):
        raise ToolError('harness answered %d of %d' % (len(res), len(cases)))
    recs = []
    for c, r in zip(cases, res):
        case = dict(CASE_DEFAULT); case.update(c['case'])
        if case['kind'] == 'minvar':
            pass
        elif 'exp' in c['case'] and case['kind'] != 'slot-exact':
            case['exp'] = CASE_DEFAULT['exp']
        if case['kind'] != 'minvar':
            case['exp'] = case['exp'] if case['kind'] == 'slot-exact' else []
            if case['kind'] != 'slot-exact':
                case['exp'] = []
        act = dict(DEFAULT); act.update({k: v for k, v in r.items() if k not in ('c', 'kind', 'detail', 'distinctPicked', 'maxRewardK')})
        # one record shape per kind keeps TLC's record access total
        recs.append({'id': '%s%d' % (case['kind'], c['c']), 'kind': case['kind'], 'case': case if case['kind'] in ('minvar',) else dict(case, exp=case['exp'] if case['kind'] == 'slot-exact' else {'n': 0, 'alpha2': 0, 'B24': 0, 'S': 0}), 'act': act})
    cans = []
    def first(kind, pred=lambda r: True):
        return next(r for r in recs if r['kind'] == kind and not r['act']['panic'] and pred(r))
    can_skip = False
    try:
        b = first('slot-exact', lambda r: r['case']['exp']['n'] >= 3)
        c = copy.deepcopy(b); c['act']['b24K'] += 50; cans.append((c, 'SlotAsModel'))
        c = copy.deepcopy(b); c['act']['sK'] -= 10000; cans.append((c, 'SlotAsModel'))
        c = copy.deepcopy(b); c['act']['panic'] = 'boom'; cans.append((c, 'NoPanic'))
        g = first('slot-palette')
        for flag, name in (('finite', 'SlotFinite'), ('shapePositive', 'SlotShapePositive'), ('ratePositive', 'SlotRatePositive'), ('varianceOk', 'SlotVarianceNonNegative'), ('meanInHull', 'SlotMeanInHull'), ('sampleOk', 'SlotSamplingWorks')):
            c = copy.deepcopy(g); c['act'][flag] = False; cans.append((c, name))
        m = first('minvar', lambda r: any(r['case']['exp']) and not any(r['case']['tie']))
        c = copy.deepcopy(m); c['act']['fired'] = [not x for x in c['act']['fired']]; cans.append((c, 'MinVariationAsModel'))
        e = first('estimate')
        c = copy.deepcopy(e); c['act']['estimates'][0]['inRange'] = False; cans.append((c, 'EstimateInRange'))
        c = copy.deepcopy(e); c['act']['estimates'][1]['estK'] += 500; cans.append((c, 'EstimateAsModel'))
        px = first('proximity', lambda r: r['act']['firedBest'])
        c = copy.deepcopy(px); c['act']['firedBest'] = False; cans.append((c, 'ProximityAsDefined'))
        cp = first('composite', lambda r: len(r['case']['limits']) >= 2)
        c = copy.deepcopy(cp); c['act']['estimates'][2]['fires'] = not c['act']['estimates'][2]['fires']; cans.append((c, 'CompositeAsModel'))
        c = copy.deepcopy(cp); c['act']['estimates'][1]['inRange'] = False; cans.append((c, 'CompositeAsModel'))
        mt = first('maxtime', lambda r: r['act']['waited'])
        c = copy.deepcopy(mt); c['act']['firedAfter'] = False; cans.append((c, 'MaxTimeEstimateSane'))
        c = copy.deepcopy(mt); c['act']['inRange'] = False; cans.append((c, 'MaxTimeEstimateSane'))
        y = first('dyn')
        c = copy.deepcopy(y); c['act']['picksInRange'] = False; cans.append((c, 'SelectorPicksConfigured'))
        c = copy.deepcopy(y); c['act']['rewardsFinite'] = False; cans.append((c, 'RewardsFinite'))
        c = copy.deepcopy(y); c['act']['rewardsInRange'] = False; cans.append((c, 'RewardsInRange'))
    except StopIteration:
        can_skip = True
    fj = os.path.join(d, 'judge.ndjson')
    common.write_ndjson(fj, recs + [c[0] for c in cans])
    jr = common.tlc('JudgeAdaptive', env={'RECS': fj}, workers=1, name=pid + '-judge', timeout=6000, xmx='8g')
    if jr.distinct != len(recs) + len(cans):
        raise ToolError('judge walked %d of %d' % (jr.distinct, len(recs) + len(cans)))
    got = collections.defaultdict(set)
    for name, idx, _ in jr.fails:
        got[int(idx)].add(name)
    for k, (c, expect) in enumerate(cans):
        if expect not in got[len(recs) + k + 1]:
            raise ToolError('judge vacuity: %s not rejected' % expect)
    verdict = common.Verdict(pid)
    differs = 0
    for name, idx, rid in jr.fails:
        i = int(idx)
        if i > len(recs):
            continue
        r = res[i - 1]
        if name == 'SlotAsModel':
            differs += 1        # conformance with the exact model of the posterior: reported, not a verdict (the statement asks for a valid state)
            continue
        verdict.add('C18/%s/%s' % (name, recs[i - 1]['kind']), 'case %s: %s -> %s' % (rid, json.dumps(cases[i - 1]['case'])[:250], json.dumps(r)[:350]), {'case': cases[i - 1]['case'], 'observed': r})
    math = math_part(pid, tier, d, verdict)
    rc = verdict.finish()
    if (can_skip or math['canaries_skipped']) and rc == 0:
        raise ToolError('no base record for the vacuity canaries and no violation reported')
    kinds = collections.Counter(r['kind'] for r in recs)
    dyn = [r for r in res if r['kind'] == 'dyn' and not r.get('panic')]
    cov = {'states': mc.distinct + jr.distinct + math['model_states_remedian'] + math['judge_states'], 'transitions': mc.generated + jr.generated, 'traces_validated_against_impl': len(recs) + math['judged'], 'evaluations': len(recs) + math['judged'],
           'distinct_nontrivial': kinds['slot-exact'] + kinds['slot-palette'] + sum(1 for r in recs if r['kind'] == 'minvar' and any(r['case']['exp'])),
           'rule': 'one evaluation = one generated case run on the real object (a reward history on SlotMachine, a fitness history on MinVariation, a set of generation counters on MaxGeneration, a run of 40-1000 searches of DynamicSelective); non-trivial = reward histories and variation histories in which the criterion fires at least once',
           'samples': [{'case': cases[5]['case'], 'observed': res[5]}], 'exhaustive': False, 'cases_by_kind': dict(kinds), 'model_states': mc.distinct,
           'variation_windows_on_an_exact_tie_skipped': sum(sum(1 for t in r['case']['tie'] if t) for r in recs if r['kind'] == 'minvar'),
           'selector_searches': sum(r['picks'] for r in dyn), 'selector_max_reward': max([r['maxRewardK'] for r in dyn] or [0]) / 1000.0,
           'slot_states_differing_from_the_exact_model': differs, 'canaries_rejected': len(cans) + math['canaries_rejected'], 'numeric_helpers': math, 'known_finding_hits': {k: len(v) for k, v in verdict.known_hits.items()}}
    common.write_evidence(pid, tier, 'model_checking', cov, time.time() - t0, len(verdict.violations),
                          ['exact stratum: integer rewards {0,1,2,5}, up to 4 updates (the integer model is exact only there); palette stratum: the invariants are evaluated by the harness in f64 (TLC reads no floating point), hull tolerance 1e-12 * max(1, largest reward) (the running mean starts from the prior mean 1, so its rounding error is absolute at that scale); '
                           'variation criterion: sample windows only (the period variant depends on wall-clock time), windows whose verdict is an exact tie with the threshold are not compared; reward range: 0 .. 27 for two objectives (derived from the constants in dynamic_selective.rs)'])
    return rc
