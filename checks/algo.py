"""C17: embedded algorithms against Algo.tla.
 1. TLC model-checks the step model of the density clustering (Dbscan!DbSpec) against its contract for every neighbourhood relation on
    3 (quick) / 4 (thorough) points, and prints every terminal state as a replay case (EmitAlgo).
 2. GenAlgo.tla enumerates symmetric cost matrices + start paths (LKH) and point sets + k / tiers (k-medoids).
 3. harness bin `algo` runs the public functions on all of them, each call under a deadline.
 4. JudgeAlgo.tla evaluates the contracts on the real outputs; for the density clustering the real output is also compared with the
    model's terminal state (same iteration order) - reported as conformance, the verdict is the contract."""
import collections, copy, json, os, time
from vlib import common
from vlib.common import ToolError


def run(pid, tier):
    t0 = time.time()
    d = common.workdir(pid + '-algo')
    thorough = tier == 'thorough'
    # 1. model checking of the step model + emission of terminal states
    emits = []
    mc_states = 0
    for cfg in (['EmitAlgo_3.cfg', 'EmitAlgo_4.cfg'] if thorough else ['EmitAlgo_3.cfg']):
        r = common.tlc('EmitAlgo', cfg=cfg, workers=1, name=pid + '-emit', timeout=3000, xmx='8g')
        if r.rc != 0 or r.invariant_violated or not r.finished:
            raise ToolError('Dbscan!DbSpec does not satisfy its own contract (%s): see work/tlc-%s-emit.log' % (cfg, pid))
        mc_states += r.distinct
        for line in r.out.splitlines():
            if line.startswith('"DBCASE '):
                emits.append(json.loads(json.loads(line)[7:]))
    if not emits:
        raise ToolError('no terminal states emitted')
    # liveness of the model (termination) on the 3-point configuration
    lv = common.tlc('Dbscan', cfg='MC_Dbscan.cfg', workers=4, name=pid + '-live', timeout=1800)
    if lv.rc != 0:
        raise ToolError('Dbscan!DbSpec: termination / contract fails in the model: see work/tlc-%s-live.log' % pid)
    # 2. generated inputs
    fc = os.path.join(d, 'gen.ndjson')
    gen = common.tlc('GenAlgo', env={'OUTFILE': fc, 'TIER': tier, 'SEED': common.seed()}, workers=1, name=pid + '-gen', timeout=3000, xmx='8g')
    if gen.rc != 0 or 'GENERATED' not in gen.out:
        raise ToolError('GenAlgo failed: see work/tlc-%s-gen.log' % pid)
    cases = common.read_ndjson(fc)
    for e in emits:
        cases.append(dict(e, kind='db', desc=False))
    # the same relations with the neighbour lists iterated in descending order (the contract does not depend on the order)
    step = 1 if len(emits) < 20000 else 7
    for e in emits[::step]:
        cases.append(dict(e, kind='db', desc=True))
        # the job-level wrapper over the same neighbour lists: every point becomes a job of some shape (with / without locations)
        SHAPES = ['single', 'single-noloc', 'multi', 'multi-mixed', 'multi-noloc', 'single', 'multi-mixed']
        k = len(cases)
        cases.append(dict(e, kind='jobdb', shapes=[SHAPES[(k + p * 3) % len(SHAPES)] for p in range(len(e['nb']))]))
    fa, fr = os.path.join(d, 'cases.ndjson'), os.path.join(d, 'results.ndjson')
    common.write_ndjson(fa, cases)
    # 3. the real code
    common.run_bin('algo', ['--in', fa, '--out', fr, '--deadline', '30'], timeout=6000, log=os.path.join(d, 'harness.log'), package='vh-core')
    res = common.read_ndjson(fr)
    if len(res) < len(cases):
        raise ToolError('harness answered %d of %d cases' % (len(res), len(cases)))
    skipped = sum(1 for r in res if r['status'] == 'skipped')
    recs = []
    for r in res:
        if r['status'] == 'skipped':      # after 3 hung calls of one kind the harness stops calling that algorithm
            continue
        c = cases[r['c'] - 1]
        recs.append({'kind': c['kind'], 'c': r['c'], 'in': {k: v for k, v in c.items() if k not in ('clusters',)}, 'act': r})
    # conformance with the model's terminal state (same order): diagnostic, not a verdict
    model_equal = model_diff = 0
    for r in recs:
        c = cases[r['c'] - 1]
        if c['kind'] == 'db' and not c['desc'] and r['act']['status'] == 'ok':
            if r['act']['clusters'] == c['clusters']:
                model_equal += 1
            else:
                model_diff += 1
    # 4. judge + canaries
    def first(pred):
        return next(r for r in recs if r['act']['status'] == 'ok' and pred(r))
    cans = []
    b = first(lambda r: r['kind'] == 'lkh' and r['in']['n'] >= 5 and r['act']['outs'][-1] != r['in']['path'])
    c = copy.deepcopy(b); c['act']['outs'][-1][1] = c['act']['outs'][-1][2]; cans.append((c, 'LkhPermutation'))
    c = copy.deepcopy(b); o = c['act']['outs'][-1]; o.append(o.pop(0)); cans.append((c, 'LkhSameStart'))
    c = copy.deepcopy(b); c['act']['outs'][-1], c['in']['path'] = c['in']['path'], c['act']['outs'][-1]; cans.append((c, 'LkhNotWorse'))
    c = copy.deepcopy(b); c['act'] = {'status': 'timeout', 'c': b['c'], 'kind': 'lkh'}; cans.append((c, 'Terminates'))
    g = first(lambda r: r['kind'] == 'db' and len(r['act']['clusters']) == 2)
    c = copy.deepcopy(g); c['act']['clusters'][1].append(c['act']['clusters'][0][0]); cans.append((c, 'DbDisjoint'))
    g = first(lambda r: r['kind'] == 'db' and len(r['act']['clusters']) == 1 and len(r['act']['clusters'][0]) < len(r['in']['order']))
    c = copy.deepcopy(g); c['act']['clusters'][0] = sorted(c['in']['order']); cans.append((c, 'DbGrown'))
    g = first(lambda r: r['kind'] == 'db' and len(r['act']['clusters']) >= 1)
    c = copy.deepcopy(g); c['act']['clusters'] = []; cans.append((c, 'DbCoreClustered'))
    jg = first(lambda r: r['kind'] == 'jobdb' and len(r['act']['clusters']) >= 1 and any(sh in ('single-noloc', 'multi-noloc') for sh in r['in']['shapes']))
    c = copy.deepcopy(jg); c['act']['clusters'] = []; cans.append((c, 'JobDbCoreClustered'))
    c = copy.deepcopy(jg); c['act']['clusters'][0] = sorted(set(c['act']['clusters'][0]) | {1 + next(i for i, sh in enumerate(c['in']['shapes']) if sh in ('single-noloc', 'multi-noloc'))}); cans.append((c, 'JobDbDisjoint'))
    k = first(lambda r: r['kind'] == 'km' and len(r['act']['clusters']) >= 2 and len(r['act']['clusters'][0]['members']) >= 2
              and any(r['in']['d'][p - 1][r['act']['clusters'][0]['medoid'] - 1] < r['in']['d'][p - 1][r['act']['clusters'][1]['medoid'] - 1] for p in r['act']['clusters'][0]['members']))
    c = copy.deepcopy(k); c['act']['clusters'][0]['members'].pop(); cans.append((c, 'KmPartition'))
    c = copy.deepcopy(k); a, bb = c['act']['clusters'][0], c['act']['clusters'][1]; a['medoid'], bb['medoid'] = bb['medoid'], a['medoid']; cans.append((c, 'KmNearest'))
    h = first(lambda r: r['kind'] == 'hier' and len(r['act']['tiers']) >= 2)
    c = copy.deepcopy(h); c['act']['tiers'][1][0]['members'].pop(); cans.append((c, 'HierPartition'))
    h = first(lambda r: r['kind'] == 'hier' and len(r['act']['tiers']) >= 1 and len(r['act']['tiers'][0]) == 2
              and any(r['in']['d'][p - 1][r['act']['tiers'][0][0]['medoid'] - 1] < r['in']['d'][p - 1][r['act']['tiers'][0][1]['medoid'] - 1] for p in r['act']['tiers'][0][0]['members']))
    c = copy.deepcopy(h); a, bb = c['act']['tiers'][0][0], c['act']['tiers'][0][1]; a['medoid'], bb['medoid'] = bb['medoid'], a['medoid']; cans.append((c, 'HierNearest'))
    fj = os.path.join(d, 'judge.ndjson')
    common.write_ndjson(fj, recs + [c[0] for c in cans])
    jr = common.tlc('JudgeAlgo', env={'RECS': fj}, workers=1, name=pid + '-judge', timeout=6000, xmx='8g')
    if jr.distinct != len(recs) + len(cans):
        raise ToolError('judge walked %d of %d' % (jr.distinct, len(recs) + len(cans)))
    got = collections.defaultdict(set)
    for name, idx, _ in jr.fails:
        got[int(idx)].add(name)
    for k_, (c, expect) in enumerate(cans):
        if expect not in got[len(recs) + k_ + 1]:
            raise ToolError('judge vacuity: %s not rejected' % expect)
    verdict = common.Verdict(pid)
    for name, idx, rid in jr.fails:
        i = int(idx)
        if i > len(recs):
            continue
        r = recs[i - 1]
        inp = r['in']
        qual = r['kind']
        if r['kind'] in ('lkh', 'lkhgeo'):
            qual = 'lkh-n%d' % inp['n'] if inp['n'] < 3 else r['kind']
        if r['kind'] == 'hier' and inp['n'] == 1:
            qual = 'hier-single-point'
        verdict.add('C17/%s/%s' % (name, qual), 'case %d %s: in=%s act=%s' % (r['c'], r['kind'], json.dumps(inp)[:400], json.dumps(r['act'])[:300]), r)
    rc = verdict.finish()
    by = collections.Counter(r['kind'] for r in recs)
    improved = sum(1 for r in recs if r['kind'] in ('lkh', 'lkhgeo') and r['act']['status'] == 'ok' and r['act']['outs'] and r['act']['outs'][-1] != r['in']['path'])
    cov = {'states': mc_states + lv.distinct + jr.distinct, 'transitions': jr.generated + lv.generated, 'traces_validated_against_impl': len(recs),
           'evaluations': len(recs), 'distinct_nontrivial': improved + sum(1 for r in recs if r['kind'] == 'db' and r['act'].get('clusters')) + by['km'] + by['hier'],
           'rule': 'one evaluation = one call of lkh_optimize / create_clusters / create_kmedoids / create_hierarchical_kmedoids on a TLC-generated input, output judged by the contracts of Algo.tla; non-trivial = LKH runs that changed the path, clusterings with at least one cluster, all k-medoids runs',
           'samples': [{'kind': r['kind'], 'in': {k: v for k, v in r['in'].items() if k in ('n', 'path', 'm', 'order', 'nb', 'minPts', 'k', 'tiers')}, 'act': r['act']} for r in (recs[len(recs) // 3], recs[-1])],
           'exhaustive': True, 'by_kind': dict(by), 'lkh_improved': improved, 'dbscan_model_states': mc_states, 'dbscan_terminal_states_replayed': len(emits),
           'dbscan_output_equals_model': model_equal, 'dbscan_output_differs_from_model': model_diff,
           'canaries_rejected': len(cans), 'skipped_after_hangs': skipped, 'known_finding_hits': {k: len(v) for k, v in verdict.known_hits.items()}}
    common.write_evidence(pid, tier, 'model_checking', cov, time.time() - t0, len(verdict.violations),
                          ['integer costs / distances (exact float arithmetic) except the Euclidean LKH stratum, whose closed costs are computed by the harness in f64 and compared with 1e-6 tolerance; LKH: symmetric matrices with zero diagonal, 1-9 nodes, neighbour lists = all or the 2-3 nearest other nodes; clustering: up to 4 points for the exhaustive relation sweep; k-medoids: k <= number of points, up to 11 points; hierarchy: the nearest-medoid rule is judged among clusters splitting the same parent'])
    return rc
