"""C12: the bundled solution checker accepts valid solutions and rejects single injected breaches.
Spec: Checker.tla (breach classes as mutations of a recorded valid (problem, solution), kept only when VrpModel finds the
mutated pair invalid).  Binding G+O: solver-made solutions accepted by VrpModel -> must be accepted by the checker;
TLC-enumerated breaches applied to the real documents -> must be rejected."""
import collections, copy, datetime, json, os, random, time
from vlib import common, pgen, project
from vlib.common import ToolError
from checks import solve_oracle


def ts_add(s, sec):
    t = datetime.datetime.fromisoformat(s.replace('Z', '+00:00')) + datetime.timedelta(seconds=sec)
    return t.strftime('%Y-%m-%dT%H:%M:%SZ')


def apply_breach(case, solution, b):
    """Mechanical application of a breach descriptor (1-based indices as in the abstract record) to the real documents."""
    P, S = copy.deepcopy(case['problem']), copy.deepcopy(solution)
    cls, k, s, a, k2 = b['class'], b['k'], b['s'], b['a'], b['k2']
    tour = S['tours'][k - 1] if k else None
    stop = tour['stops'][s - 1] if s else None
    def vtype(t):
        return next(v for v in P['fleet']['vehicles'] if v['typeId'] == t['typeId'])
    if cls == 'MisreportLoad':
        stop['load'] = (stop['load'] or [0]); stop['load'][0] += 1
    elif cls == 'UnknownJob':
        stop['activities'][a - 1]['jobId'] = 'ghost-job'
    elif cls == 'DuplicateJob':
        stop['activities'].insert(a, copy.deepcopy(stop['activities'][a - 1]))
    elif cls == 'DropJob':
        del stop['activities'][a - 1]
        if not stop['activities']:
            del tour['stops'][s - 1]
    elif cls == 'AssignedAndUnassigned':
        S.setdefault('unassigned', []).append({'jobId': stop['activities'][a - 1]['jobId'], 'reasons': [{'code': 'NO_REASON_FOUND', 'description': 'unknown'}]})
    elif cls == 'SplitJob':
        act = stop['activities'].pop(a - 1)
        if not stop['activities']:
            del tour['stops'][s - 1]
        t2 = S['tours'][k2 - 1]
        s2 = len(t2['stops']) - (1 if t2['stops'][-1]['activities'][-1]['type'] == 'arrival' else 0)
        act = dict(act); act.pop('location', None); act.pop('time', None)
        t2['stops'][s2 - 1]['activities'].append(act)
    elif cls == 'ShiftArrival':
        stop['time']['arrival'] = ts_add(stop['time']['arrival'], 2)
    elif cls == 'WrongDistance':
        stop['distance'] += 2
    elif cls == 'WrongTourDistance':
        tour['statistic']['distance'] += 5
    elif cls == 'WrongTourDuration':
        tour['statistic']['duration'] += 5
    elif cls == 'WrongOverallDistance':
        S['statistic']['distance'] += 3
    elif cls == 'WrongOverallDuration':
        S['statistic']['duration'] += 3
    elif cls == 'OverCapacity':
        peak = max((st['load'] or [0])[0] for st in tour['stops'])
        vtype(tour)['capacity'][0] = peak - 1
    elif cls in ('LimitDistance', 'LimitDuration', 'LimitTourSize'):
        lim = vtype(tour).setdefault('limits', {})
        if cls == 'LimitDistance': lim['maxDistance'] = float(tour['statistic']['distance'] - 2)
        elif cls == 'LimitDuration': lim['maxDuration'] = float(tour['statistic']['duration'] - 2)
        else: lim['tourSize'] = sum(1 for st in tour['stops'] for x in st['activities'] if x['type'] not in ('departure', 'arrival')) - 1
    elif cls == 'ShiftEndsEarly':
        sh = vtype(tour)['shifts'][tour['shiftIndex']]
        sh['end']['latest'] = ts_add(tour['stops'][-1]['time']['arrival'], -2)
    elif cls == 'ShiftStartsLate':
        sh = vtype(tour)['shifts'][tour['shiftIndex']]
        sh['start']['earliest'] = ts_add(tour['stops'][0]['time']['departure'], 2)
        if sh['start'].get('latest') and sh['start']['latest'] < sh['start']['earliest']:
            sh['start']['latest'] = sh['start']['earliest']
    elif cls == 'LimitRecharge':
        cur, worst, prev = 0, 0, None
        for st in tour['stops']:
            if prev is not None:
                cur += st['distance'] - prev
                worst = max(worst, cur)
                if any(x['type'] == 'recharge' for x in st['activities']):
                    cur = 0
            prev = st['distance']
        vtype(tour)['shifts'][tour['shiftIndex']]['recharges']['maxDistance'] = float(worst - 2)
    elif cls == 'BreakRelation':
        t2 = S['tours'][k2 - 1]
        P['plan'].setdefault('relations', []).append({'type': 'any', 'jobs': [stop['activities'][a - 1]['jobId']], 'vehicleId': t2['vehicleId'], 'shiftIndex': t2['shiftIndex']})
    elif cls == 'BreakRelationFirstShift':
        # no shiftIndex: "the first, zero indexed, shift" by default
        P['plan'].setdefault('relations', []).append({'type': 'strict' if (k + s + a) % 2 else 'sequence', 'jobs': [stop['activities'][a - 1]['jobId']], 'vehicleId': tour['vehicleId']})
    elif cls == 'MisplaceBreak':
        act = stop['activities'][a - 1]
        tm = act.get('time') or {'start': stop['time']['arrival'], 'end': stop['time']['departure']}
        act['time'] = {'start': ts_add(tm['start'], 3600), 'end': ts_add(tm['end'], 3600)}
    else:
        raise ToolError('unknown breach class ' + cls)
    return P, S


def supported(case):
    """Features the checker documents and this stratum exercises (the statement: 'for the supported features')."""
    return True


def run(pid, tier):
    t0 = time.time()
    seed = common.seed()
    rnd = random.Random(seed * 2654435761 % (1 << 31))
    nsolve, nmut_recs = (260, 40) if tier == 'quick' else (4000, 700)
    cases = [pgen.make_case(rnd.randrange(1 << 30), rnd.choice(['tiny', 'small', 'small', 'medium'])) for _ in range(nsolve)]
    # one problem in six with recharge stations (a distance budget per stretch: checker rule `check_recharge_limits`)
    cases = [solve_oracle.add_recharge(c, rnd) if i % 6 == 5 and 'unreachable' not in c.get('features', []) else c for i, c in enumerate(cases)]
    outcomes = solve_oracle.solve(pid + '-a', cases, jobs=10)
    by_id = {c['id']: c for c in cases}
    recs = []
    for cid, o in outcomes.items():
        if o['status'] != 'ok':
            continue
        try:
            recs.append(project.project(by_id[cid]['problem'], by_id[cid]['matrices'], o['solution'], cid))
        except project.Unsupported:
            pass
    if not recs:
        raise ToolError('no records')
    # which solver-made solutions are valid under the specification?
    res = solve_oracle.judge(pid + '-o', recs)
    invalid_ids = {rid for _, _, rid in res.fails}
    valid = [r for r in recs if r['id'] not in invalid_ids]
    d = common.workdir(pid + '-chk')
    # positive side: every valid solver-made solution must be accepted
    pos_cases = [{'id': r['id'], 'problem': by_id[r['id']]['problem'], 'matrices': by_id[r['id']]['matrices'], 'solution': outcomes[r['id']]['solution']} for r in valid]
    fpos, fposr = os.path.join(d, 'positive.ndjson'), os.path.join(d, 'positive.results.ndjson')
    common.write_ndjson(fpos, pos_cases)
    common.run_bin('checker', ['--in', fpos, '--out', fposr, '--jobs', 10], timeout=3000, log=os.path.join(d, 'checker.log'), package='vh-prag')
    pos = {r['id']: r for r in common.read_ndjson(fposr)}
    verdict = common.Verdict(pid)
    for c in pos_cases:
        r = pos[c['id']]
        if r['verdict'] != 'ok':
            feats = by_id[c['id']].get('features', [])
            kind = classify_rejection(r['errors'])
            if r['verdict'] == 'panic' and 'subtract with overflow' in ' '.join(r['errors']):
                kind = 'load'
            if kind == 'load' and any(a['type'] == 'reload' for t_ in c['solution']['tours'] for s_ in t_['stops'] for a in s_['activities']):
                kind = 'load-with-reload'
            if kind == 'load' and any(len(t_['stops'][0]['activities']) > 1 for t_ in c['solution']['tours']):
                kind = 'load-first-stop-with-job'
            if kind == 'match-activities':
                bad = [e for e in r['errors'] if 'match activities' in e][0].split(': ')[1].split(':')[0]
                job = next((j for j in by_id[c['id']]['problem']['plan']['jobs'] if j['id'] == bad), {})
                if any(len(p_.get('times') or []) > 1 for k_ in ('pickups', 'deliveries', 'replacements', 'services') for t_ in job.get(k_, []) for p_ in t_['places']):
                    kind = 'match-activities-multi-window-place'
            if 'recharge distance violation' in ' '.join(r['errors']):
                # the shift of a tour is resolved by time, not by shiftIndex (same root as tour-size-multishift): a tour of a shift
                # without stations is held against the budget of another shift of its vehicle
                tours_ = [t_ for t_ in c['solution']['tours'] if ("vehicle id '%s'" % t_['vehicleId']) in ' '.join(r['errors'])]
                vts_ = by_id[c['id']]['problem']['fleet']['vehicles']
                own = lambda t_: next(v_ for v_ in vts_ if t_['vehicleId'] in v_['vehicleIds'])['shifts'][t_['shiftIndex']]
                kind = 'recharge-limit-multishift' if tours_ and any(len(next(v_ for v_ in vts_ if t_['vehicleId'] in v_['vehicleIds'])['shifts']) > 1 for t_ in tours_) else 'recharge-limit'
            if kind == 'tour-size' and any(len(v_['shifts']) > 1 for v_ in by_id[c['id']]['problem']['fleet']['vehicles']):
                kind = 'tour-size-multishift'
            verdict.add('C12/AcceptsValid/%s' % kind, 'checker %s a solution that VrpModel finds valid (%s): %s' % (r['verdict'], c['id'], '; '.join(r['errors'])[:300]),
                        {'case': by_id[c['id']], 'solution': c['solution'], 'checker': r})
    # negative side: TLC enumerates the demanded breaches of a sample of valid records
    accepted = [r for r in valid if pos[r['id']]['verdict'] == 'ok' and r['tours']]
    if len(accepted) < 5 and verdict.violations:
        # the checker accepts (almost) nothing: the positive side has said what there is to say, breaches cannot be told apart from that
        rc = verdict.finish()
        common.write_evidence(pid, tier, 'model_checking',
                              {'states': res.distinct + 1, 'transitions': res.generated + 1, 'traces_validated_against_impl': len(pos_cases), 'evaluations': len(pos_cases),
                               'distinct_nontrivial': len(pos_cases), 'rule': 'positive side only: the checker rejected (almost) every solution that VrpModel finds valid, no breach was injected',
                               'samples': [{'positive': pos_cases[0]['id'], 'checker': pos[pos_cases[0]['id']]}], 'positive_solutions': len(pos_cases),
                               'positive_rejected': sum(1 for c in pos_cases if pos[c['id']]['verdict'] != 'ok')},
                              time.time() - t0, len(verdict.violations), ['negative side skipped'])
        return rc
    rnd.shuffle(accepted)
    sample = accepted[:nmut_recs]
    frec, fb = os.path.join(d, 'valid.records.ndjson'), os.path.join(d, 'breaches.ndjson')
    common.write_ndjson(frec, sample)
    gen = common.tlc('Checker', env={'RECS': frec, 'OUTFILE': fb}, workers=1, name=pid + '-gen', timeout=3000, xmx='8g')
    if 'NOT-VALID' in gen.out:
        raise ToolError('Checker.tla found a sample record not valid (oracle inconsistency)')
    breaches = common.read_ndjson(fb)
    if len(breaches) < 100:
        raise ToolError('only %d breaches enumerated' % len(breaches))
    per_class_cap = 60 if tier == 'quick' else 2000
    rnd.shuffle(breaches)
    taken, cnt = [], collections.Counter()
    for b in breaches:
        if cnt[b['class']] < per_class_cap:
            cnt[b['class']] += 1; taken.append(b)
    neg_cases = []
    for i, b in enumerate(taken):
        c = by_id[b['rec']]
        P, S = apply_breach(c, outcomes[b['rec']]['solution'], b)
        neg_cases.append({'id': 'm%d' % i, 'problem': P, 'matrices': c['matrices'], 'solution': S})
    fneg, fnegr = os.path.join(d, 'negative.ndjson'), os.path.join(d, 'negative.results.ndjson')
    common.write_ndjson(fneg, neg_cases)
    common.run_bin('checker', ['--in', fneg, '--out', fnegr, '--jobs', 10], timeout=3000, log=os.path.join(d, 'checker-neg.log'), package='vh-prag')
    neg = {r['id']: r for r in common.read_ndjson(fnegr)}
    missed = collections.Counter()
    for i, b in enumerate(taken):
        r = neg['m%d' % i]
        if r['verdict'] in ('err', 'undeserializable'):
            continue
        if r['verdict'] == 'invalid':
            continue   # the mutated problem is rejected by validation (e.g. capacity 0): not a checker matter
        missed[b['class']] += 1
        what = 'panic' if r['verdict'] == 'panic' else 'accepted'
        qual = 'general'
        sol0 = outcomes[b['rec']]['solution']
        tour0 = sol0['tours'][b['k'] - 1] if b['k'] else None
        if b['class'] in ('MisreportLoad', 'OverCapacity') and tour0 and len(tour0['stops'][0]['activities']) > 1 and (b['class'] == 'OverCapacity' or b['s'] == 1):
            qual = 'first-stop-with-job'
        if what == 'panic' and 'subtract with overflow' in ' '.join(r['errors']) and any(a_['type'] == 'reload' for t_ in neg_cases[i]['solution']['tours'] for s_ in t_['stops'] for a_ in s_['activities']):
            qual = 'reload-interval-underflow'
        if b['class'] in ('ShiftEndsEarly', 'ShiftStartsLate') and tour0:
            # the checker holds a tour against ANY shift of its vehicle (it does not use shiftIndex): a tour that left its own shift is
            # accepted when another shift of the vehicle - e.g. one without end - spans it
            Pm, tm = neg_cases[i]['problem'], neg_cases[i]['solution']['tours'][b['k'] - 1]
            vt_ = next(v_ for v_ in Pm['fleet']['vehicles'] if v_['typeId'] == tm['typeId'])
            dep_, arr_ = project.ts(tm['stops'][0]['time']['departure']), project.ts(tm['stops'][-1]['time']['arrival'])
            if any(k_ != tm['shiftIndex'] and project.ts(sh_['start']['earliest']) <= dep_ and (not sh_.get('end') or arr_ <= project.ts(sh_['end']['latest']))
                   for k_, sh_ in enumerate(vt_['shifts'])):
                qual = 'another-shift-of-the-vehicle-spans-the-tour'
        if b['class'] == 'BreakRelation' and tour0 and sol0['tours'][b['k2'] - 1]['vehicleId'] == tour0['vehicleId']:
            qual = 'same-vehicle-other-shift'
        verdict.add('C12/RejectsBreach/%s%s/%s' % (b['class'], '-panic' if what == 'panic' else '', qual),
                    'checker %s solution %s with injected %s at tour %s stop %s activity %s%s' % (what, b['rec'], b['class'], b['k'], b['s'], b['a'], (': ' + r['errors'][0][:150]) if r['errors'] else ''),
                    {'case': by_id[b['rec']], 'breach': b, 'mutated_problem': neg_cases[i]['problem'], 'mutated_solution': neg_cases[i]['solution']})
    rc = verdict.finish()
    cov = {
        'states': res.distinct + 1, 'transitions': res.generated + 1, 'traces_validated_against_impl': len(pos_cases) + len(taken),
        'evaluations': len(pos_cases) + len(taken), 'distinct_nontrivial': len({(b['rec'], b['class'], b['k'], b['s'], b['a'], b['k2']) for b in taken}),
        'rule': 'positive: every solver-made solution that VrpModel finds valid is given to CheckerContext::check; negative: TLC enumerates every (breach class, site) of a sample of those records '
                'whose mutated pair VrpModel finds invalid, the driver applies the descriptor to the real documents; distinct_nontrivial = distinct (record, class, site) breaches given to the checker',
        'samples': [taken[0], {'positive': pos_cases[0]['id']}],
        'positive_solutions': len(pos_cases), 'positive_rejected': sum(1 for c in pos_cases if pos[c['id']]['verdict'] != 'ok'),
        'records_invalid_under_spec_not_used': len(invalid_ids), 'breaches_enumerated': len(breaches), 'breaches_checked_by_class': dict(cnt),
        'breaches_not_rejected_by_class': dict(missed), 'mutated_problems_rejected_by_validation': sum(1 for r in neg.values() if r['verdict'] == 'invalid'),
        'known_finding_hits': {k: len(v) for k, v in verdict.known_hits.items()},
    }
    common.write_evidence(pid, tier, 'model_checking', cov, time.time() - t0, len(verdict.violations),
                          ['explicit matrices are always supplied (routing rules are skipped by the checker otherwise)',
                           'breach magnitudes exceed the checker tolerances (+-1 on arrival and distance)', 'integer stratum of the generator'])
    return rc


def classify_rejection(errors):
    e = ' '.join(errors).lower()
    for key in ('break', 'load', 'capacity', 'arrival time', 'distance', 'duration', 'statistic', 'relation', 'tour size', 'shift', 'match activities', 'unassigned', 'reload'):
        if key in e:
            return key.replace(' ', '-')
    return 'other'
