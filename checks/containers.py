"""C14: Tour and vehicle Registry against their reference model (spec/Containers.tla): TLC checks the model exhaustively (BFS
with a VIEW that hides the history) and generates operation histories over an original and its deep copy in simulation mode;
the harness steps each history through the real objects; spec/JudgeContainers.tla compares every observation."""
import collections, json, os, time
from vlib import common
from vlib.common import ToolError


def histories(cfg, num, depth, seed, name):
    res = common.tlc('Containers', cfg=cfg, workers=1, simulate='num=%d' % num, depth=depth, name=name, timeout=1800, seed_arg=seed, extra=['-aril', str(seed)])
    out = []
    for line in res.out.splitlines():
        if line.startswith('"HISTORY '):
            out.append(json.loads(json.loads(line)[len('HISTORY '):]))
    return out


def run(pid, tier):
    t0 = time.time()
    seed = common.seed()
    d = common.workdir(pid + '-cont')
    mc = common.tlc('Containers', cfg='MC_Containers.cfg', workers=4, name=pid + '-mc', timeout=1800, coverage=True, xmx='8g')
    if mc.rc != 0 or mc.invariant_violated:
        raise ToolError('Containers model violates %s' % mc.invariant_violated)
    dead = [a for a, (x, t) in mc.coverage().items() if t == 0 and a[0].isupper() and a != 'Init']
    if dead:
        raise ToolError('Containers model actions never taken: %s' % dead)
    num = 150 if tier == 'quick' else 3000
    hs = []
    for cfg, closed in (('Containers_gen.cfg', True), ('Containers_gen_open.cfg', False)):
        seen = set()
        for h in histories(cfg, num, 14, seed + (0 if closed else 7), pid + '-gen'):
            key = common.digest(h)
            if key not in seen:
                seen.add(key); hs.append({'closed': closed, 'hist': h})
    cap = 600 if tier == 'quick' else 15000
    hs = [h for h in hs if h['closed']][:cap] + [h for h in hs if not h['closed']][:cap]
    if len(hs) < 100:
        raise ToolError('only %d histories generated' % len(hs))
    fin, fout = os.path.join(d, 'histories.ndjson'), os.path.join(d, 'results.ndjson')
    common.write_ndjson(fin, hs)
    common.run_bin('containers', ['--in', fin, '--out', fout], timeout=3000, log=os.path.join(d, 'harness.log'), package='vh-core')
    acts = common.read_ndjson(fout)
    steps = []
    for a in acts:
        e = hs[a['h'] - 1]['hist'][a['step'] - 1]
        steps.append({'h': a['h'], 'step': a['step'], 'exp': e, 'act': {'res': a['res'], 'obs': a['obs']}})
    if len(steps) != sum(len(h['hist']) for h in hs):
        raise ToolError('harness lost steps')
    # binding canaries: corrupt the real observations
    import copy
    cans = []
    can_skip = False
    try:
        base = next(s for s in steps if s['exp']['op']['name'] == 'insert_last' and len(s['act']['obs']['tourA'].get('acts', [])) >= 2 and s['exp']['op']['on'] == 'A')
        c = copy.deepcopy(base); c['act']['obs']['tourA']['acts'] = c['act']['obs']['tourA']['acts'][:-1]; cans.append((c, 'TourAsModel'))
        c = copy.deepcopy(base); c['act']['obs']['tourA']['jobCount'] += 1; cans.append((c, 'TourAsModel'))
        c = copy.deepcopy(base); c['act']['res'] = 'panic'; cans.append((c, 'ResultAsModel'))
        baseb = next((s for s in steps if not s['act']['obs']['tourB'].get('none', True) and s['exp']['op']['on'] == 'A' and s['act']['obs']['tourB']['acts']), None)
        if baseb:
            c = copy.deepcopy(baseb); c['act']['obs']['tourB']['acts'] = []; cans.append((c, 'OtherTourUntouched'))
        baser = next(s for s in steps if s['exp']['op']['name'] in ('use_actor', 'get_route') and s['exp']['res'] == 'true' and s['exp']['op']['on'] == 'A')
        c = copy.deepcopy(baser); c['act']['obs']['regA']['available'] = c['act']['obs']['regA']['available'] + [c['exp']['op']['a']]; cans.append((c, 'RegistryAsModel'))
    except StopIteration:
        can_skip = True          # no record to corrupt (the code under test answered nothing of that kind): judged below
    fj = os.path.join(d, 'steps.ndjson')
    common.write_ndjson(fj, steps + [c[0] for c in cans])
    res = common.tlc('JudgeContainers', env={'STEPS': fj}, workers=1, name=pid + '-judge', timeout=3000, xmx='8g')
    if res.distinct != len(steps) + len(cans):
        raise ToolError('judge walked %d of %d steps' % (res.distinct, len(steps) + len(cans)))
    got = collections.defaultdict(set)
    for name, idx, _ in res.fails:
        got[int(idx)].add(name)
    for k, (c, expect) in enumerate(cans):
        if expect not in got[len(steps) + k + 1]:
            raise ToolError('judge vacuity: corrupted observation not rejected by %s' % expect)
    verdict = common.Verdict(pid)
    for name, idx, rid in res.fails:
        i = int(idx)
        if i > len(steps):
            continue
        s = steps[i - 1]
        verdict.add('C14/%s/%s' % (name, s['exp']['op']['name']), 'history %d step %d %s: expected res=%s obs=%s, got res=%s obs=%s' % (
            s['h'], s['step'], json.dumps(s['exp']['op']), s['exp']['res'], json.dumps(s['exp']['obs'])[:200], s['act']['res'], json.dumps(s['act']['obs'])[:200]),
            {'closed': hs[s['h'] - 1]['closed'], 'history': hs[s['h'] - 1]['hist'][:s['step']], 'actual': s['act']})
    rc = verdict.finish()
    if can_skip and rc == 0:
        raise ToolError('no base record for the vacuity canaries and no violation reported')
    ops = collections.Counter(s['exp']['op']['name'] for s in steps)
    cov = {'states': mc.distinct + res.distinct, 'transitions': mc.generated + res.generated, 'traces_validated_against_impl': len(hs),
           'evaluations': len(steps), 'distinct_nontrivial': len({common.digest(h) for h in hs}),
           'rule': 'one evaluation = one operation of a TLC-generated history (14 operations over Tour{insert_at, insert_last, remove, remove_activity_at, deep_copy} and '
                   'RegistryContext{get_route, use_route, free_route, deep_copy, deep_slice} on an original and its copy) stepped through the real objects; distinct_nontrivial = distinct histories',
           'samples': [{'closed': hs[0]['closed'], 'ops': [s['op'] for s in hs[0]['hist']]}],
           'operations': dict(ops), 'histories_closed': sum(1 for h in hs if h['closed']), 'histories_open': sum(1 for h in hs if not h['closed']),
           'model_check': {'cfg': 'MC_Containers.cfg', 'states': mc.distinct, 'transitions': mc.generated, 'depth': mc.depth}, 'canaries_rejected': len(cans),
           'known_finding_hits': {k: len(v) for k, v in verdict.known_hits.items()}}
    common.write_evidence(pid, tier, 'model_checking', cov, time.time() - t0, len(verdict.violations),
                          ['indices handed to insert_at are inside the contract (between the depot ends)', 'Registry is exercised through RegistryContext'])
    return rc
