"""C19: the growing self-organising map against spec/Gsom.tla.  TLC checks the compaction arithmetic (transcribed exactly) on every
subset of a window at several offsets: the shift never merges two nodes, the map never grows and never drops below four nodes.
GenGsom.tla enumerates network configurations x stream kinds x operation scripts; harness bin `gsom` runs them on the real Network
and records every transition; JudgeGsom.tla checks the structure invariants on what was observed and validates every transition
against the model (compaction = G_Compact, growth only by adjacent cells, smoothing keeps the cells).  Phases / elite bounds of the
population on top of the map are covered by the Rosomaxa histories of C08 (same harness) and repeated here."""
import collections, copy, json, os, time
from vlib import common
from vlib.common import ToolError


def weights_part(pid, tier, d, verdict):
    """the vrp side of the map's input: weight vectors of real solutions (empty, constructed, cut to one tour), judged by JudgeWeights.tla"""
    import random
    from vlib import pgen
    rnd = random.Random(common.seed() * 1009 + 3)
    n = 60 if tier == 'quick' else 1500
    cases = [pgen.make_case(rnd.randrange(1 << 30), rnd.choice(['tiny', 'small', 'small', 'medium'])) for _ in range(n)]
    fin, fout = os.path.join(d, 'weights-cases.ndjson'), os.path.join(d, 'weights-results.ndjson')
    common.write_ndjson(fin, [{'id': c['id'], 'problem': c['problem'], 'matrices': c['matrices']} for c in cases])
    common.run_bin('weights', ['--in', fin, '--out', fout], timeout=3000, log=os.path.join(d, 'weights.log'), package='vh-core')
    res = [r for r in common.read_ndjson(fout) if r['status'] != 'invalid']
    if len(res) < n // 2:
        raise ToolError('weights harness answered %d of %d' % (len(res), n))
    cans = []
    base = next((r for r in res if r['status'] == 'ok' and len(r['variants']) >= 2 and r['variants'][1]['tours'] >= 1 and all(r['variants'][1]['finite'])), None)
    if base:
        c = copy.deepcopy(base); c['variants'][1]['finite'][11] = False; cans.append((c, 'WeightsFiniteWithTours'))
        c = copy.deepcopy(base); c['variants'][1]['len'] = 14; cans.append((c, 'WeightsOfInputDimension'))
        c = copy.deepcopy(base); c['status'] = 'panic'; cans.append((c, 'NoPanic'))
    fj = os.path.join(d, 'weights-judge.ndjson')
    common.write_ndjson(fj, res + [c[0] for c in cans])
    jr = common.tlc('JudgeWeights', env={'RECS': fj}, workers=1, name=pid + '-judgew', timeout=3000)
    if jr.distinct != len(res) + len(cans):
        raise ToolError('weights judge walked %d of %d' % (jr.distinct, len(res) + len(cans)))
    got = collections.defaultdict(set)
    for name, idx, _ in jr.fails:
        got[int(idx)].add(name)
    for k, (c, expect) in enumerate(cans):
        if expect not in got[len(res) + k + 1]:
            raise ToolError('weights judge vacuity: %s not rejected' % expect)
    for name, idx, rid in jr.fails:
        i = int(idx)
        if i > len(res):
            continue
        r = res[i - 1]
        bad = [(v['tours'], [k for k, f in enumerate(v['finite']) if not f], v['len']) for v in r['variants']]
        verdict.add('C19/%s/%s' % (name, 'solution-without-tours' if name == 'WeightsFiniteWithoutTours' else 'vrp-solution'),
                    'problem %s: (tours, non-finite weight indices, dimension) per variant %s %s' % (rid, bad, r.get('error', '')[:100]), {'case': next(c for c in cases if c['id'] == rid), 'observed': r})
    if not base and not verdict.violations:
        raise ToolError('no constructed solution with finite weights to corrupt')
    return {'problems': len(res), 'variants': sum(len(r['variants']) for r in res), 'single_tour_variants': sum(1 for r in res for v in r['variants'] if v['tours'] == 1),
            'empty_variants': sum(1 for r in res for v in r['variants'] if v['tours'] == 0), 'canaries_rejected': len(cans), 'judge_states': jr.distinct}


def run(pid, tier):
    t0 = time.time()
    d = common.workdir(pid + '-gsom')
    mc = common.tlc('GsomSweep', cfg='MC_Gsom_4.cfg' if tier == 'thorough' else 'MC_Gsom.cfg', workers=4, name=pid + '-mc', timeout=1800, xmx='8g')
    if mc.rc != 0 or mc.invariant_violated:
        raise ToolError('Gsom: the transcribed compaction breaks %s on some shape: see work/tlc-%s-mc.log (compare with the code: contraction.rs)' % (mc.invariant_violated, pid))
    fc, fr = os.path.join(d, 'cases.ndjson'), os.path.join(d, 'results.ndjson')
    gen = common.tlc('GenGsom', cfg='GenAlgo.cfg', env={'OUTFILE': fc, 'TIER': tier}, workers=1, name=pid + '-gen', timeout=3000, xmx='8g')
    if gen.rc != 0 or 'GENERATED' not in gen.out:
        raise ToolError('GenGsom failed: see work/tlc-%s-gen.log' % pid)
    cases = common.read_ndjson(fc)
    common.run_bin('gsom', ['--in', fc, '--out', fr], timeout=6000, log=os.path.join(d, 'harness.log'), package='vh-roso')
    res = common.read_ndjson(fr)
    if len({r['c'] for r in res}) != len(cases):
        raise ToolError('harness answered %d of %d scenarios' % (len({r['c'] for r in res}), len(cases)))
    recs = [dict(r, id='c%ds%d' % (r['c'], r['step'])) for r in res]
    cans = []
    def first(pred):
        return next(r for r in recs if not r['panic'] and pred(r))
    b = first(lambda r: r['op'] == 'c' and len(r['post']) < len(r['pre']))
    c = copy.deepcopy(b); c['post'][0] = [c['post'][0][0] + 50, c['post'][0][1]]; cans.append((c, 'CompactAsModel'))
    c = copy.deepcopy(b); c['post'] = c['pre'] + [[99, 99]]; c['size'] = len(c['post']); cans.append((c, 'CompactNeverGrows'))
    c = copy.deepcopy(b); c['post'] = c['post'][:3]; c['size'] = 3; cans.append((c, 'CompactKeepsFour'))
    c = copy.deepcopy(b); c['post'] = c['post'] + [c['post'][0]]; cans.append((c, 'UniqueCoordinates'))
    g = first(lambda r: r['op'] == 'b' and len(r['post']) > len(r['pre']))
    c = copy.deepcopy(g); c['post'] = c['post'] + [[77, 77]]; c['size'] += 1; cans.append((c, 'GrowthAsModel'))
    c = copy.deepcopy(g); c['post'] = c['post'][1:]; c['size'] -= 1; cans.append((c, 'GrowthAsModel'))
    s = first(lambda r: r['op'] == 's')
    c = copy.deepcopy(s); c['post'] = c['post'][1:]; c['size'] -= 1; cans.append((c, 'SmoothKeepsCells'))
    for flag, name in (('keysAgree', 'KeysAgreeWithNodes'), ('lookupOk', 'LookupFindsExactly'), ('absentNotFound', 'LookupFindsExactly'), ('weightsFinite', 'WeightsFinite'), ('dimensionOk', 'WeightsFinite'), ('errorsFinite', 'ErrorsFinite')):
        c = copy.deepcopy(s); c[flag] = False; cans.append((c, name))
    c = copy.deepcopy(s); c['maxStored'] = c['nodeSize'] + 1; cans.append((c, 'StorageWithinCapacity'))
    c = copy.deepcopy(s); c['panic'] = 'boom'; cans.append((c, 'NoPanic'))
    fj = os.path.join(d, 'judge.ndjson')
    common.write_ndjson(fj, recs + [c[0] for c in cans])
    jr = common.tlc('JudgeGsom', env={'RECS': fj}, workers=1, name=pid + '-judge', timeout=6000, xmx='8g')
    if jr.distinct != len(recs) + len(cans):
        raise ToolError('judge walked %d of %d' % (jr.distinct, len(recs) + len(cans)))
    got = collections.defaultdict(set)
    for name, idx, _ in jr.fails:
        got[int(idx)].add(name)
    for k, (c, expect) in enumerate(cans):
        if expect not in got[len(recs) + k + 1]:
            raise ToolError('judge vacuity: %s not rejected' % expect)
    verdict = common.Verdict(pid)
    by_c = {c['c']: c['sc'] for c in cases}
    for name, idx, rid in jr.fails:
        i = int(idx)
        if i > len(recs):
            continue
        r = recs[i - 1]
        sc = by_c[r['c']]
        verdict.add('C19/%s/%s' % (name, sc['stream']), 'scenario %s (%s, cfg %s) step %d op %s: %s' % (r['c'], sc['stream'], json.dumps(sc['cfg']), r['step'], r['op'], (r['panic'] or json.dumps({k: r[k] for k in ('size', 'maxStored', 'nodeSize', 'pre', 'post')}))[:300]),
                    {'scenario': sc, 'transition': r})
    weights = weights_part(pid, tier, d, verdict)
    rc = verdict.finish()
    ops = collections.Counter(r['op'] for r in recs)
    cov = {'states': mc.distinct + jr.distinct + weights['judge_states'], 'transitions': mc.generated + jr.generated, 'traces_validated_against_impl': len(cases) + weights['problems'], 'evaluations': len(recs) + weights['variants'], 'vrp_weight_vectors': weights,
           'distinct_nontrivial': sum(1 for r in recs if r['post'] != r['pre']),
           'rule': 'one evaluation = one operation (creation, store_batch, smooth, compact) on a real network with the structure observed before and after and validated against Gsom.tla; non-trivial = operations that changed the set of coordinates',
           'samples': [{'scenario': by_c[b['c']], 'op': b['op'], 'pre': b['pre'], 'post': b['post']}], 'exhaustive': False, 'compaction_shapes_model_checked': mc.distinct,
           'operations': dict(ops), 'compactions_that_removed_nodes': sum(1 for r in recs if r['op'] == 'c' and len(r['post']) < len(r['pre'])), 'largest_map': max(len(r['post']) for r in recs),
           'batches_that_grew_the_map': sum(1 for r in recs if r['op'] == 'b' and len(r['post']) > len(r['pre'])),
           'streams': sorted({c['sc']['stream'] for c in cases}), 'canaries_rejected': len(cans), 'known_finding_hits': {k: len(v) for k, v in verdict.known_hits.items()}}
    common.write_evidence(pid, tier, 'model_checking', cov, time.time() - t0, len(verdict.violations),
                          ['the harness storage keeps the first node_size items (the policy of the population storage); numbers of a stream are drawn by the harness from the stream kind and the scenario number; '
                           'phases and elite bounds of the population over the map are decided by C08 (Rosomaxa histories)'])
    return rc
