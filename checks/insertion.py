"""C06 / C20: insertion evaluator vs brute-force simulation, quoted insertion cost vs realised objective change.
Model: spec/Insertion.tla (+ MCInsertion: guarded construction/ruin game, exactness of the cached summaries).
Binding G: TLC enumerates (world, feasible tour, job) cases, harness bin `insertion` replays them into the real evaluator,
spec/JudgeInsertion.tla decides the reported behaviour."""
import collections, copy, json, os, random, re, time
from vlib import common
from vlib.common import ToolError

ATTR = {
    'C06': ['BuiltAsGiven', 'ScheduleAsModel', 'SoundConcrete', 'SoundAny', 'SoundApplied', 'CompleteAny', 'PositionFeasible', 'Panic'],
    'C20': ['QuoteUnassigned', 'QuoteTours', 'QuoteDistance', 'QuoteValue', 'DeltaUnassigned', 'DeltaTours', 'DeltaDistance',
            'DeltaValue', 'FitDistanceModel', 'FitCostModel', 'DeltaCostNoWaiting'],
}


def random_world(rnd, k):
    n = rnd.choice([3, 3, 4])
    pts = [(rnd.randint(0, 4), rnd.randint(0, 4)) for _ in range(n)]
    d = [[0 if i == j else abs(pts[i][0] - pts[j][0]) + abs(pts[i][1] - pts[j][1]) + rnd.choice([0, 0, 1, 3]) for j in range(n)] for i in range(n)]
    # metric closure: the design claim "a removal keeps a gated tour feasible" (GatedImpliesFeasible under RuinAt) needs the
    # triangle inequality - TLC found the counterexample in a non-metric random world (remove a stop -> longer way -> late)
    for k_ in range(n):
        for i in range(n):
            for j in range(n):
                d[i][j] = min(d[i][j], d[i][k_] + d[k_][j])
    closed = rnd.random() < 0.7
    horizon = rnd.choice([12, 20, 30])
    def tws():
        out = []
        t = 0
        for _ in range(rnd.choice([1, 1, 2])):
            a = t + rnd.randint(0, horizon // 2); b = a + rnd.choice([0, 0, 2, 5, horizon])
            out.append([a, b]); t = b + 1
        # windows of a place need not be listed in the order of time (the later one first in a third of the two-window places)
        if len(out) == 2 and rnd.random() < 0.35:
            out.reverse()
        return out
    jobs = []
    for i in range(rnd.randint(5, 7)):
        kind = rnd.choice(['del', 'del', 'pick', 'pick', 'svc', 'pd', 'rep'])
        if kind == 'pd':
            jobs.append({'kind': 'pd', 'q': rnd.randint(1, 2), 'value': rnd.randint(0, 5),
                         'p': {'loc': rnd.randint(2, n), 'dur': rnd.choice([0, 1, 2]), 'tws': tws()},
                         'd': {'loc': rnd.randint(2, n), 'dur': rnd.choice([0, 1, 2]), 'tws': tws()}})
        else:
            jobs.append({'kind': kind, 'loc': rnd.randint(2, n), 'dur': rnd.choice([0, 1, 2, 3]), 'tws': tws(),
                         'q': 0 if kind == 'svc' else rnd.randint(1, 2), 'value': rnd.randint(0, 5)})
    return {'name': 'random-%d' % k, 'd': d, 'sloc': 1, 'closed': closed, 'eloc': rnd.choice([1, 1, n]) if closed else 1,
            'shiftEnd': horizon if closed else 1000000, 'cap': rnd.randint(1, 3), 'fixed': rnd.choice([0, 5]), 'cd': rnd.choice([1, 2]),
            'ct': rnd.choice([1, 2]), 'jobs': jobs}


def canaries(results):
    """Corrupt what the harness reported; the judge has to notice."""
    out = []
    base = next((r for r in results if r.get('single') and r.get('goal') == 'A' and r['any'].get('ok') and r['applied']
                 and len(r['concrete']) >= 2 and not all(c['ok'] for c in r['concrete'])), None)
    if base is None:
        return out
    def mut(name, expect, fn):
        r = copy.deepcopy(base); fn(r); r['id'] = 900000 + len(out); out.append((r, expect, name))
    bad = next(i for i, c in enumerate(base['concrete']) if not c['ok'])
    good = next(c for c in base['concrete'] if c['ok'])
    def unsound(r):
        c = copy.deepcopy(good); c['acts'][0]['idx'] = bad; r['concrete'][bad] = c
    mut('success-at-infeasible-position', 'SoundConcrete', unsound)
    def fail_any(r): r['any'] = {'ok': False, 'code': 1, 'stopped': False}
    mut('any-reports-failure', 'CompleteAny', fail_any)
    def quote(r): r['any']['costK'][2] += 1000
    mut('distance-quote+1', 'QuoteDistance', quote)
    def delta(r): r['fitAfter'][0] += 1000
    mut('unassigned-delta', 'DeltaUnassigned', delta)
    def tours(r): r['any']['costK'][1] += 1000
    mut('tours-quote+1', 'QuoteTours', tours)
    def wrongpos(r): r['any']['acts'][0]['idx'] = bad
    mut('any-returns-infeasible-position', 'PositionFeasible', wrongpos)
    return out


def run(pid, tier):
    t0 = time.time()
    seed = common.seed()
    rnd = random.Random(seed * 104729 + 7)
    d = common.workdir(pid + '-ins')
    nextra = 4 if tier == 'quick' else 24
    maxlen = 3 if tier == 'quick' else 4
    extra = [random_world(rnd, k) for k in range(nextra)]
    fx = os.path.join(d, 'extra-worlds.ndjson')
    common.write_ndjson(fx, extra)
    nworlds = 5 + nextra
    # 1. model level: guarded construction / ruin game, exactness of the summaries, in every world
    mc_states = mc_trans = 0
    mc_cov = {}
    for w in range(1, nworlds + 1):
        cfg = os.path.join(common.SPEC, 'MCInsertion_run_%s.cfg' % pid)
        open(cfg, 'w').write('SPECIFICATION Spec\nCONSTANTS\n  WorldIx = %d\n  MaxLen = %d\nINVARIANT GatedImpliesFeasible\nINVARIANT Exactness\nCHECK_DEADLOCK FALSE\n' % (w, maxlen + 1))
        res = common.tlc('MCInsertion', cfg='MCInsertion_run_%s.cfg' % pid, env={'EXTRAWORLDS': fx}, workers=2, name=pid + '-mc', timeout=1800, coverage=(w == 1))
        if res.invariant_violated or res.rc != 0:
            raise ToolError('model MCInsertion violates %s in world %d (the transcription of the evaluator or the simulation is wrong): see work/tlc-%s-mc.log' % (res.invariant_violated, w, pid))
        mc_states += res.distinct; mc_trans += res.generated
        if w == 1:
            mc_cov = {k: v[1] for k, v in res.coverage().items() if k in ('GuardedInsert', 'RuinAt')}
    if mc_cov and min(mc_cov.values()) == 0:
        raise ToolError('model action never taken: %s' % mc_cov)
    # 2. generate cases
    fw, fc, fr = os.path.join(d, 'worlds.ndjson'), os.path.join(d, 'cases.ndjson'), os.path.join(d, 'results.ndjson')
    gen = common.tlc('GenInsertion', env={'MAXLEN': maxlen, 'WORLDS': 'all', 'WORLDSFILE': fw, 'OUTFILE': fc, 'EXTRAWORLDS': fx},
                     workers=1, name=pid + '-gen', timeout=3000, xmx='8g')
    cases = common.read_ndjson(fc)
    if len(cases) < 200:
        raise ToolError('generator produced only %d cases' % len(cases))
    # 3. replay into the real evaluator
    common.run_bin('insertion', ['--worlds', fw, '--in', fc, '--out', fr], timeout=3000, log=os.path.join(d, 'harness.log'), package='vh-core')
    results = common.read_ndjson(fr)
    verdict = common.Verdict(pid)
    judged = [r for r in results if 'panic' not in r]
    if pid == 'C06':
        for r in results:
            if 'panic' in r:
                verdict.add('C06/Panic/general', 'evaluator panicked on case %s: %s' % (r['id'], r['panic'][:200]), r)
    # 4. judge
    cans = canaries(judged)
    fj = os.path.join(d, 'judged.ndjson')
    common.write_ndjson(fj, judged + [c[0] for c in cans])
    res = common.tlc('JudgeInsertion', env={'RESULTS': fj, 'EXTRAWORLDS': fx}, workers=1, name=pid + '-judge', timeout=3000, xmx='8g')
    if res.distinct != len(judged) + len(cans):
        raise ToolError('judge walked %d of %d records' % (res.distinct, len(judged) + len(cans)))
    got = collections.defaultdict(set)
    for name, idx, rid in res.fails:
        got[int(idx)].add(name)
    for k, (r, expect, name) in enumerate(cans):
        if expect not in got[len(judged) + k + 1]:
            raise ToolError('judge vacuity: corruption "%s" not rejected by %s' % (name, expect))
    if len(cans) < 5:
        raise ToolError('binding canaries not applicable')
    mine = set(ATTR[pid])
    others = collections.Counter()
    for name, idx, rid in res.fails:
        i = int(idx)
        if i > len(judged):
            continue
        if name not in mine:
            others[name] += 1
            continue
        r = judged[i - 1]
        verdict.add('%s/%s/general' % (pid, name), 'case %s goal %s world %s job %s tour %s violates %s' % (r['id'], r['goal'], r['w'], r['j'], json.dumps(r['tour']), name),
                    {'world': (common.read_ndjson(fw))[r['w'] - 1], 'result': r, 'invariant': name})
    rc = verdict.finish()
    infos = [i for i in re.findall(r'INFO (\d+) incompleteConcrete=(\d+) feasible=(-?\d+) anyOk=(\w+) nowait=(\w+)', res.out) if int(i[0]) <= len(judged)]
    binding = sum(1 for i in infos if int(i[2]) >= 0 and int(i[2]) < 1 + len(judged[int(i[0]) - 1]['tour'])) if infos else 0
    nowait = sum(1 for i in infos if i[4] == 'TRUE')
    distinct = {common.digest([r['w'], r['tour'], r['j'], r['goal']]) for r in judged if r['tour']}
    sample = judged[min(40, len(judged) - 1)]
    cov = {
        'states': mc_states + res.distinct, 'transitions': mc_trans + res.generated, 'traces_validated_against_impl': len(judged),
        'evaluations': len(judged), 'distinct_nontrivial': len(distinct),
        'rule': 'one evaluation = one (world, simulation-feasible tour of <= %d activities, palette job, goal) case enumerated by TLC and replayed into '
                'eval_job_insertion_in_route at every concrete position, in exhaustive Any mode and through a real cheapest recreate; non-trivial = non-empty tour' % maxlen,
        'samples': [{k: sample[k] for k in ('id', 'w', 'j', 'goal', 'tour', 'any', 'applied', 'fitBefore', 'fitAfter')}],
        'exhaustive': True, 'worlds': nworlds, 'max_tour_len': maxlen, 'cases': len(cases), 'results': len(results),
        'cases_where_some_position_is_infeasible': binding, 'cases_without_waiting_before': nowait,
        'concrete_positions_incomplete_not_judged': sum(int(i[1]) for i in infos),
        'model_check': {'module': 'MCInsertion', 'worlds': nworlds, 'max_len': maxlen + 1, 'states': mc_states, 'transitions': mc_trans, 'actions_taken_world1': mc_cov},
        'invariants_judged': sorted(mine), 'invariants_failed_of_other_properties': dict(others), 'canaries_rejected': len(cans),
        'known_finding_hits': {k: len(v) for k, v in verdict.known_hits.items()},
    }
    common.write_evidence(pid, tier, 'model_checking', cov, time.time() - t0, len(verdict.violations),
                          ['integer worlds only (3-4 locations, <= 8 palette jobs); constraints: time windows, shift end, one capacity dimension',
                           'the harness builds tours by placing activities directly and refreshing state through goal.accept_route_state / accept_solution_state'])
    return rc
