"""C04 / C05: recorded operator histories validated against spec/TraceSolutionCtx.tla (T binding, macro traces)
plus the exhaustive check of the fine-grained model spec/SolutionCtx.tla (MC_SolutionCtx.cfg)."""
import collections, json, os, random, re, time
from vlib import common, pgen, project
from vlib.common import ToolError

ATTR = {
    'C04': ['Conservation', 'NoDuplicateEntries', 'NoAlienJobs', 'RegistrySync', 'TourJobsSync', 'MultiWhole', 'ParentUnchanged',
            'PlacesAndWindows', 'Reach', 'ShiftStart', 'DepartureNotBeforeEarliest', 'DepartureNotAfterLatest', 'ShiftEnd',
            'Capacity', 'Skills', 'RechargeDistance', 'LimitDistance', 'LimitDuration', 'LimitTourSize', 'Groups', 'Compat', 'OrderHard',
            'RelationVehicle', 'RelationOrder', 'ConditionalDistinct', 'Panic'],
    'C05': ['CacheFresh', 'FitnessFunctionOfTours', 'VectorsFreshAfterEveryInsertion', 'TourScalarsFreshAfterEveryInsertion', 'AggregatesFreshAfterEveryInsertion', 'ScheduleArrivals', 'ScheduleDepartures', 'ReportedLoad', 'StopDistances',
            'TourStat'],
}


def op_class(op):
    """operator name without its random pairing: 'rr:cluster+slice' -> 'rr', 'search:lkh_strict' -> 'search:lkh_strict'"""
    kind, _, rest = op.partition(':')
    return kind if kind in ('rr', 'ruin', 'recreate', 'init') else op


def qualifier(inv, case, ev):
    op = ev.get('op', '')
    if inv == 'Reach' and op.startswith('init:') and not any(f in case.get('features', []) for f in ('reloads', 'resources', 'recharge', 'breaks')):
        # built by insertions alone: every leg was evaluated (no removal closed a gap over an unreachable pair)
        return 'construction'
    if inv == 'Reach':
        return 'pairwise-unreachable' if case.get('unreach_mode') == 'pairwise' else 'location-unreachable'
    if inv in ('LimitDistance', 'LimitDuration') and not case.get('metric', True) and (inv == 'LimitDistance' or case.get('travel_only')):
        # removing a stop makes the way longer when the matrix breaks the triangle inequality; removals are not re-checked
        return 'non-metric-matrix'
    if inv == 'LimitDuration':
        return 'travel-only' if case.get('travel_only') else 'service-or-waiting'
    if inv in ('CacheFresh', 'FitnessFunctionOfTours'):
        # problems with a work balance objective (balance-max-load / -activities / -distance / -duration)
        objs = [o['type'] for o in case['problem'].get('objectives') or []]
        if any(o.startswith('balance-') for o in objs):
            diff = ev.get('cache', {}).get('diff', [])
            if inv == 'FitnessFunctionOfTours' or (diff and all((' state f:' in d) for d in diff)):
                return 'work-balance-features'
    if inv in ('Conservation', 'NoDuplicateEntries', 'Capacity') and op.startswith('search:lkh'):
        return op.split(':')[1]
    if inv == 'NoDuplicateEntries':
        return op_class(op)
    if inv in ('PlacesAndWindows', 'ShiftEnd') and not case.get('metric', True):
        return 'non-metric-matrix'
    return 'general'


def run(pid, tier):
    t0 = time.time()
    seed = common.seed()
    rnd = random.Random(seed * 7919 + 13)
    nhist, steps = (120, 40) if tier == 'quick' else (2500, 120)
    cases = []
    for i in range(nhist):
        size = rnd.choice(['tiny', 'small', 'small', 'small', 'medium'])
        c = pgen.make_case(rnd.randrange(1 << 30), size)
        long_history = i % 20 == 19 and i < (120 if tier == 'quick' else 480)
        if long_history:
            # a long-tour history: 25-60 jobs on few vehicles without tight constraints (every state is large: few of them, 40 steps)
            c = pgen.long_tours(pgen.make_case(rnd.randrange(1 << 30), 'large', features={'unreachable': False, 'breaks': False, 'multishift': False, 'pd': True}))
        c['steps'] = min(steps, 40) if long_history else steps
        if i % 20 == 9:
            # conditional jobs under the searches: a medium problem with breaks on every shift, mostly search steps (decomposition needs
            # three or more tours and keeps conditional jobs that are waiting in `ignored`)
            c = pgen.make_case(rnd.randrange(1 << 30), 'medium', features={'breaks': True, 'unreachable': False, 'travel_only': False})
            c['steps'] = steps
            c['only'] = ['search', 'search', 'rr']
        if i % 20 in (2, 12):
            # every customer job assigned over several tours while conditional jobs wait in `ignored`; mostly search steps
            c = pgen.relaxed(pgen.make_case(rnd.randrange(1 << 30), 'medium', features={'breaks': True, 'unreachable': False, 'travel_only': False, 'multishift': False}))
            if i % 20 == 12:
                from checks.solve_oracle import add_recharge
                c = add_recharge(c, rnd)
            c['steps'] = steps
            c['only'] = ['search', 'search', 'rr']
        if i % 20 in (6, 16):
            # soft task order (tour-order objective, a per-solution count of violations) on a loose problem: operators that take
            # jobs out without putting any back (redistribution, sequence exchange, whole-route ruin under a reached quota)
            c = pgen.make_case(rnd.randrange(1 << 30), rnd.choice(['small', 'medium']), features={'order': True, 'softorder': True, 'objectives': True, 'unreachable': False, 'travel_only': False})
            objs = c['problem'].get('objectives') or []
            if {'type': 'tour-order'} in objs and i % 20 == 16:
                # lowest priority: cost decides, so the tours do break the wished order and the count is not 0
                objs.remove({'type': 'tour-order'}); objs.append({'type': 'tour-order'})
            c['steps'] = steps
            c['only'] = ['search', 'local', 'rr', 'rr']
        if i % 20 in (4, 14):
            # recharge stations (a distance budget per stretch) on most shifts of a small / medium problem
            from checks.solve_oracle import add_recharge
            c = add_recharge(pgen.make_case(rnd.randrange(1 << 30), rnd.choice(['small', 'medium']), features={'unreachable': False}), rnd)
            c['steps'] = steps
        c['threads'] = rnd.choice([1, 2, 4])
        c['seed'] = rnd.randrange(1 << 30)
        cases.append(c)
    d = common.workdir(pid + '-ops')
    fin, fout = os.path.join(d, 'cases.ndjson'), os.path.join(d, 'steps.ndjson')
    common.write_ndjson(fin, cases)
    common.run_bin('ops', ['--in', fin, '--out', fout, '--jobs', 10], timeout=7000, log=os.path.join(d, 'ops.log'), package='vh-core')
    cases_by_id = {c['id']: c for c in cases}

    probs, pix, ctxs, universe = [], {}, {}, {}
    events, raw = [], {}
    panics, invalid, unsupported = [], 0, collections.Counter()
    ops_seen = collections.Counter()
    for ev in common.read_ndjson(fout):
        cid = ev['case']
        if ev['op'] == 'read':
            if 'universe' in ev:
                universe[cid] = ev['universe']
            elif 'invalid' in ev:
                invalid += 1
            else:
                panics.append(ev)
            continue
        if 'panic' in ev or 'observePanic' in ev:
            panics.append(ev)
            continue
        if ev.get('none'):
            # a local operator that found no move: only the parent digests are observable
            events.append({'id': '%s@%d:%s' % (cid, ev['step'], ev['op']), 'only_parent': True, 'ev': ev, 'case': cid})
            continue
        if cid not in pix:
            try:
                prob, ctx = project.project_problem(cases_by_id[cid]['problem'], cases_by_id[cid]['matrices'])
            except project.Unsupported as e:
                unsupported[str(e)] += 1
                continue
            prob['universe'] = universe.get(cid, [])
            probs.append(prob); pix[cid] = len(probs); ctxs[cid] = ctx
        sol = ev.get('solution') or {}
        if 'writePanic' in sol or 'writeError' in sol:
            panics.append({'case': cid, 'step': ev['step'], 'op': ev['op'], 'panic': 'write: ' + str(sol)})
            continue
        try:
            ps = project.project_solution(sol, ctxs[cid])
        except project.Unsupported as e:
            unsupported[str(e)] += 1
            continue
        eid = '%s@%d:%s' % (cid, ev['step'], ev['op'])
        events.append({'id': eid, 'pix': pix[cid], 'op': ev['op'], 'kind': ev['kind'], 'state': ev['state'], 'sol': ps,
                       'parentBefore': ev['parentBefore'], 'parentAfter': ev['parentAfter'],
                       'cache': {'d1': ev['cache']['d1'], 'd2': ev['cache']['d2'], 'fix': ev['cache']['fix']},
                       'fitEqual': ev['fitEqual'], 'orderEqual': ev['orderEqual'],
                       'ins': {k: ev.get('ins', {}).get(k, 0) for k in ('n', 'routeStale', 'scalarStale', 'solStale', 'skipped')}})
        raw[eid] = ev
        ops_seen[op_class(ev['op'])] += 1

    verdict = common.Verdict(pid)
    mine = set(ATTR[pid])
    # local operators without a move: parent must be unchanged (C04)
    judged = [e for e in events if not e.get('only_parent')]
    if pid == 'C04':
        for e in events:
            if e.get('only_parent') and e['ev']['parentBefore'] != e['ev']['parentAfter']:
                verdict.add('C04/ParentUnchanged/general', 'parent changed by %s' % e['id'], e['ev'])
        for p in panics:
            msg = str(p.get('panic', p.get('observePanic', '')))
            slug = re.sub(r'[^a-z]+', '-', msg.lower())[:40].strip('-')
            key = 'C04/Panic/%s/%s' % (op_class(p.get('op', '?')).replace('search:', ''), slug)
            verdict.add(key, 'panic in %s step %s of %s: %s' % (p.get('op'), p.get('step'), p.get('case'), str(p.get('panic', p.get('observePanic')))[:200]),
                        {'event': p, 'case': cases_by_id.get(p.get('case'))})
    if not judged:
        raise ToolError('no events to judge')
    fp, fs = os.path.join(d, 'probs.ndjson'), os.path.join(d, 'events.ndjson')
    common.write_ndjson(fp, probs)
    res = common.tlc_records('TraceSolutionCtx', judged, 'STEPS', fs, env={'PROBS': fp}, workers=1, name=pid + '-trace', timeout=7000, xmx='8g')
    if res.distinct != len(judged):
        raise ToolError('trace spec consumed %d of %d events (see work/tlc-%s-trace.log)' % (res.distinct, len(judged), pid))

    # binding demonstration: corrupt one logged field of accepted events, expect rejection
    failed_ids = {f[2] for f in res.fails}
    clean = [e for e in judged if e['id'] not in failed_ids and e['state']['routes'] and e['state']['routes'][0]['jobs']]
    canary_ok = 0
    if clean:
        import copy
        muts = []
        e = copy.deepcopy(clean[0]); e['id'] = 'canary:lost-job'; j = e['state']['routes'][0]['jobs'][0]
        e['state']['routes'][0]['jobs'] = [x for x in e['state']['routes'][0]['jobs'] if x != j]; muts.append((e, 'Conservation'))
        e = copy.deepcopy(clean[0]); e['id'] = 'canary:dup-unassigned'; e['state']['unassigned'] = e['state']['unassigned'] + [clean[0]['state']['routes'][0]['jobs'][0]]; muts.append((e, 'Conservation'))
        e = copy.deepcopy(clean[0]); e['id'] = 'canary:registry'; e['state']['available'] = e['state']['available'] + [e['state']['routes'][0]['vehicle'] + '#' + str(e['state']['routes'][0]['shift'])]; muts.append((e, 'RegistrySync'))
        e = copy.deepcopy(clean[0]); e['id'] = 'canary:parent'; e['parentAfter'] = 'x' + e['parentAfter']; muts.append((e, 'ParentUnchanged'))
        e = copy.deepcopy(clean[0]); e['id'] = 'canary:cache'; e['cache']['d2'] = 'x' + e['cache']['d2']; e['cache']['fix'] = True; muts.append((e, 'CacheFresh'))
        e = copy.deepcopy(clean[0]); e['id'] = 'canary:ins'; e['ins']['routeStale'] = 1; muts.append((e, 'VectorsFreshAfterEveryInsertion'))
        e = copy.deepcopy(clean[0]); e['id'] = 'canary:arrival'
        if e['sol']['tours'] and len(e['sol']['tours'][0]['stops']) > 1:
            e['sol']['tours'][0]['stops'][1]['arr'] += 1; muts.append((e, 'ScheduleArrivals'))
        fc = os.path.join(d, 'canaries.ndjson')
        common.write_ndjson(fc, [m[0] for m in muts])
        cres = common.tlc('TraceSolutionCtx', env={'PROBS': fp, 'STEPS': fc}, workers=1, name=pid + '-canary', timeout=600)
        got = collections.defaultdict(set)
        for name, _, rid in cres.fails:
            got[rid].add(name)
        for m, expect in muts:
            if expect not in got[m['id']]:
                raise ToolError('trace spec vacuity: corruption %s not rejected by %s' % (m['id'], expect))
            canary_ok += 1
    if canary_ok < 5:
        raise ToolError('binding canaries not applicable')

    # "applied to a consistent solution yields a consistent one": Inv(pre) => Inv(post).  The pre-state of an event is
    # the last main-line state of its history; an event whose pre-state was itself rejected by the spec is not judged
    # (the history runs on from a state the property says nothing about) and is counted as tainted.
    STATE_FAMILY = set(ATTR['C04']) - {'ParentUnchanged', 'Panic'}
    bad_state = {rid for name, _, rid in res.fails if name in STATE_FAMILY}
    parent, last_main = {}, {}
    last_ruin = {}
    for e in judged:
        cid = e['id'].split('@')[0]
        # the bare recreate of a side branch runs on the bare ruin's output of the same step
        parent[e['id']] = last_ruin.get(cid) if e['kind'] == 'recreate' else last_main.get(cid)
        if e['kind'] == 'ruin':
            last_ruin[cid] = e['id']
        if raw[e['id']]['main']:
            last_main[cid] = e['id']
    # once the main line of a history went through a rejected state, the rest of that history is not judged: part of
    # the corruption is invisible in the abstract state (e.g. features switching into "partial solution" mode)
    broken_from = {}
    for e in judged:
        cid = e['id'].split('@')[0]
        if raw[e['id']]['main'] and e['id'] in bad_state and cid not in broken_from:
            broken_from[cid] = raw[e['id']]['step']
    def is_tainted(rid):
        cid = rid.split('@')[0]
        return cid in broken_from and raw[rid]['step'] > broken_from[cid]
    tainted = 0
    others = collections.Counter()
    # a leg with a negative matrix entry makes the time replay of that state meaningless: attributed to Reach only
    reach_bad = {rid for name, _, rid in res.fails if name == 'Reach'}
    TIME_FAMILY = {'PlacesAndWindows', 'ScheduleArrivals', 'ScheduleDepartures', 'ShiftEnd', 'TourStat', 'StopDistances', 'LimitDistance', 'LimitDuration'}
    for name, idx, rid in res.fails:
        if name not in mine:
            others[name] += 1
            continue
        if rid in reach_bad and name in TIME_FAMILY:
            continue
        if is_tainted(rid) or (name in STATE_FAMILY and parent.get(rid) in bad_state):
            tainted += 1
            continue
        if pid == 'C05' and (rid in bad_state or parent.get(rid) in bad_state):
            tainted += 1
            continue
        ev = raw[rid]
        c = cases_by_id[ev['case']]
        key = '%s/%s/%s' % (pid, name, qualifier(name, c, ev))
        verdict.add(key, 'event %s violates %s%s' % (rid, name, (' diff=' + str(ev['cache']['diff'])[:160]) if name == 'CacheFresh' else (' ' + str(ev.get('ins', {}))[:300]) if name.endswith('AfterEveryInsertion') else ''),
                    {'case': c, 'event': ev, 'invariant': name})
    # model level: exhaustive check of the fine-grained SolutionCtx model
    mc = model_check(tier)
    rc = verdict.finish()

    changed = sum(1 for e in judged if e['kind'] != 'init')
    distinct = {common.digest([e['op'].split(':')[0], e['state']['routes'], e['state']['unassigned']]) for e in judged}
    nonfix = sum(1 for e in judged if not e['cache']['fix'])
    sample = judged[min(3, len(judged) - 1)]
    cov = {
        'states': res.distinct + mc['states'], 'transitions': res.generated + mc['transitions'],
        'traces_validated_against_impl': len(cases) - invalid,
        'evaluations': len(judged), 'distinct_nontrivial': len(distinct),
        'rule': 'one evaluation = one observed post-state of a real operator in a seeded random history (all shipped ruins in '
                'CompositeRuin, recreates, local operators, decompose / redistribute / infeasible / LKH x2 / default composite); '
                'distinct_nontrivial = distinct (operator kind, tours, unassigned) observations',
        'samples': [{'id': sample['id'], 'routes': [r['acts'] for r in sample['state']['routes']], 'required': sample['state']['required'],
                     'ignored': sample['state']['ignored'], 'unassigned': sample['state']['unassigned'], 'cache': sample['cache']}],
        'operator_counts': dict(ops_seen), 'histories': len(cases), 'steps_per_history': steps,
        'events_after_operator': changed, 'local_operator_without_move': sum(1 for e in events if e.get('only_parent')),
        'non_fixpoint_recompute_not_judged_for_cache': nonfix, 'single_insertions_observed_hook_H2': sum(e['ins']['n'] for e in judged), 'single_insertions_not_judged_recompute_edits_solution': sum(e['ins']['skipped'] for e in judged), 'panics': len(panics), 'invalid_cases': invalid,
        'unsupported_projection': dict(unsupported), 'invariants_judged': sorted(mine),
        'invariants_failed_of_other_properties': dict(others), 'tainted_events_not_judged': tainted, 'histories_broken_midway': len(broken_from), 'binding_canaries_rejected': canary_ok,
        'model': mc, 'known_finding_hits': {k: len(v) for k, v in verdict.known_hits.items()},
    }
    common.write_evidence(pid, tier, 'model_checking', cov, time.time() - t0, len(verdict.violations),
                          ['harness observes states through public API + hook H1 (cached route/solution state rendering)',
                           'projection is mechanical', 'operator internals use the unseeded default Random (runs differ between invocations)'])
    return rc


def model_check(tier):
    cfg = 'MC_SolutionCtx.cfg' if tier == 'quick' else 'MC_SolutionCtx_big.cfg'
    res = common.tlc('SolutionCtx', cfg=cfg, workers=4, name='mc-sctx', timeout=3000, coverage=True, xmx='8g')
    if res.invariant_violated or res.rc != 0:
        raise ToolError('SolutionCtx model check failed: %s' % res.invariant_violated)
    cov = res.coverage()
    dead = [a for a, (d_, t_) in cov.items() if t_ == 0 and a[0].isupper()]
    return {'module': 'SolutionCtx', 'cfg': cfg, 'states': res.distinct, 'transitions': res.generated, 'depth': res.depth,
            'actions_never_taken': dead}
