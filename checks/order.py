"""C09: order laws of insertion costs and goals.  Order.tla defines the comparison and the algebra; GenOrder.tla checks the laws
on the model for every pair / triple of the domain (ASSUME) and enumerates every pair with the model's answer; harness bin
`order` replays them on InsertionCost and on goals built with GoalBuilder; JudgeOrder.tla compares."""
import collections, copy, json, os, time
from vlib import common
from vlib.common import ToolError


def run(pid, tier):
    t0 = time.time()
    d = common.workdir(pid + '-order')
    fc, fg, fr = os.path.join(d, 'cost.ndjson'), os.path.join(d, 'goal.ndjson'), os.path.join(d, 'results.ndjson')
    gen = common.tlc('GenOrder', env={'MAXLEN': 2 if tier == 'quick' else 3, 'OUTCOST': fc, 'OUTGOAL': fg}, workers=1, name=pid + '-gen', timeout=3400, xmx='8g')
    if gen.rc != 0 or 'GENERATED' not in gen.out:
        raise ToolError('GenOrder failed (a law does not hold on the model, or generation error): see work/tlc-%s-gen.log' % pid)
    cost, goal = common.read_ndjson(fc), common.read_ndjson(fg)
    # the same cases under two units: 1 and 2^-57 (all numbers of a case then lie within f64::EPSILON of each other - the laws do not care)
    res = []
    for unit in ('1', '6.938893903907228e-18'):
        common.run_bin('order', ['--cost', fc, '--goal', fg, '--out', fr], timeout=3000, log=os.path.join(d, 'harness.log'), package='vh-core', env={'VH_ORDER_UNIT': unit})
        part = common.read_ndjson(fr)
        if len(part) != len(cost) + len(goal):
            raise ToolError('harness lost cases')
        res += part
    cost, goal = [dict(c, unit=u) for u in ('1', '6.938893903907228e-18') for c in cost], [dict(c, unit=u) for u in ('1', '6.938893903907228e-18') for c in goal]
    # order of res: per unit, cost cases then goal cases
    half = len(res) // 2
    res = res[:len(cost) // 2] + res[half:half + len(cost) // 2] + res[len(cost) // 2:half] + res[half + len(cost) // 2:]
    verdict = common.Verdict(pid)
    recs = []
    for exp, act in zip(cost + goal, res):
        if 'panic' in act:
            verdict.add('C09/Panic/%s' % exp['kind'], 'panic on %s: %s' % (json.dumps(exp)[:200], act['panic'][:100]), {'case': exp})
            continue
        recs.append({'exp': exp, 'act': act})
    # canaries
    cans = []
    b = next(r for r in recs if r['exp']['kind'] == 'cost' and r['exp']['cmp'] == -1 and r['exp']['alg'] and r['exp']['x'])
    c = copy.deepcopy(b); c['act']['cmp'] = 1; cans.append((c, 'CmpAsModel'))
    c = copy.deepcopy(b); c['act']['rev'] = -1; cans.append((c, 'Antisymmetric'))
    c = copy.deepcopy(b); c['act']['back'][0]['v'] += 1; cans.append((c, 'AddSubInverse'))
    g = next(r for r in recs if r['exp']['kind'] == 'goal' and r['exp']['cmp'] == 1)
    c = copy.deepcopy(g); c['act']['cmp'] = 0; cans.append((c, 'CmpAsModel'))
    c = copy.deepcopy(g); c['act']['self'] = 1; cans.append((c, 'Reflexive'))
    fj = os.path.join(d, 'judge.ndjson')
    common.write_ndjson(fj, recs + [c[0] for c in cans])
    jr = common.tlc('JudgeOrder', env={'RECS': fj}, workers=1, name=pid + '-judge', timeout=3000, xmx='8g')
    if jr.distinct != len(recs) + len(cans):
        raise ToolError('judge walked %d of %d' % (jr.distinct, len(recs) + len(cans)))
    got = collections.defaultdict(set)
    for name, idx, _ in jr.fails:
        got[int(idx)].add(name)
    for k, (c, expect) in enumerate(cans):
        if expect not in got[len(recs) + k + 1]:
            raise ToolError('judge vacuity: %s not rejected' % expect)
    for name, idx, rid in jr.fails:
        i = int(idx)
        if i > len(recs):
            continue
        r = recs[i - 1]
        verdict.add('C09/%s/%s' % (name, r['exp']['kind']), '%s: expected %s, code answered %s' % (json.dumps({k: r['exp'][k] for k in r['exp'] if k in ('x', 'y', 'shape', 'a', 'b')})[:300], r['exp']['cmp'], json.dumps(r['act'])[:200]), r)
    rc = verdict.finish()
    cov = {'states': jr.distinct + 1, 'transitions': jr.generated + 1, 'traces_validated_against_impl': len(recs),
           'evaluations': len(recs), 'distinct_nontrivial': sum(1 for r in recs if r['exp']['cmp'] != 0),
           'rule': 'one evaluation = one ordered pair of cost vectors (length <= %d over -inf,-2,-1,-0,+0,1,2,+inf; algebra on the finite part) or one pair of solutions under one of 7 goal shapes '
                   '(single layers and dominance layers, fitness over -1,-0,+0,1); non-trivial = pairs that are not equal under the model' % (2 if tier == 'quick' else 3),
           'samples': [recs[7]['exp'], recs[-1]['exp']], 'exhaustive': True, 'cost_pairs': len(cost), 'goal_pairs': len(goal),
           'laws_checked_on_model': ['CmpCost reflexive / antisymmetric / transitive on all triples of length <= 2 vectors', '(x+y)-y = x up to sign of zero',
                                     'CmpGoal reflexive / antisymmetric for every shape', 'single-layer goals = lexicographic fitness comparison with +0 = -0, transitive'],
           'canaries_rejected': len(cans), 'known_finding_hits': {k: len(v) for k, v in verdict.known_hits.items()}}
    common.write_evidence(pid, tier, 'model_checking', cov, time.time() - t0, len(verdict.violations),
                          ['NaN is outside the domain', 'the pragmatic goal_reader composition (sum / weighted sum) is reproduced in the harness with the same dominance_order call, not read from a problem document'])
    return rc
