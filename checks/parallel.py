"""C15: parallel evaluation.
 1. spec/ParallelEval.tla: the fold_reduce of evaluate_all with pruning, for every candidate sequence up to 4 and every way of
    cutting it (TLC): the reduced result is the sequential minimum when the activity-level part of a cost is non-negative; the
    configuration with a negative part must be violated (the model can tell).
 2. spec/GenParallel.tla enumerates cases over the insertion worlds (two feasible tours + remaining jobs); harness bin `parallel`
    evaluates every (route, job) pair alone and evaluate_all under pools of 1, 2, 3, 4, 8 threads; spec/JudgeParallel.tla
    requires every run to return the minimal cost vector.
 3. the same generated problems solved under a grid of pool layouts, every returned solution judged by the VrpModel oracle
    (all invariants of C01-C03)."""
import collections, copy, json, os, random, re, time
from vlib import common, pgen, project
from vlib.common import ToolError
from checks import insertion, solve_oracle

LAYOUTS = [(1, 1), (1, 2), (2, 2), (4, 1), (1, 8), (3, 3)]


def non_metric(world, rnd):
    """a world whose matrix breaks the triangle inequality (a detour over a third location is shorter)"""
    w = copy.deepcopy(world)
    n = len(w['d'])
    i, j = rnd.sample(range(n), 2)
    w['d'][i][j] += rnd.choice([4, 7]); w['d'][j][i] += rnd.choice([4, 7])
    w['name'] = w['name'] + '-nonmetric'
    return w


def is_metric(d):
    n = len(d)
    return all(d[i][j] <= d[i][k] + d[k][j] for i in range(n) for j in range(n) for k in range(n))


def layouts_part(pid, tier, rnd, verdict):
    n = 25 if tier == 'quick' else 400
    # strata with recorded defects of C01-C03 are left to those properties (unreachable pairs, travel-only limits, non-metric matrices, breaks)
    forced = {'unreachable': False, 'travel_only': False, 'metric': True, 'breaks': False}
    cases = []
    for i in range(n):
        base = pgen.make_case(rnd.randrange(1 << 30), rnd.choice(['tiny', 'small', 'small', 'medium']), features=forced, gens=rnd.choice([2, 5, 15]))
        for (pools, threads) in LAYOUTS:
            c = copy.deepcopy(base)
            c['id'] = '%s-p%dt%d' % (base['id'], pools, threads)
            c['config'].setdefault('environment', {})['parallelism'] = {'numThreadPools': pools, 'threadsPerPool': threads}
            c['layout'] = [pools, threads]
            cases.append(c)
    outcomes = solve_oracle.solve(pid + '-lay', cases, jobs=4)
    status = collections.Counter(o['status'] for o in outcomes.values())
    by_id = {c['id']: c for c in cases}
    recs = []
    for cid, o in outcomes.items():
        c = by_id[cid]
        if o['status'] in ('panic', 'err'):
            verdict.add('C15/Solve-%s/%s' % (o['status'], re.sub(r'[^a-z0-9]+', '-', o.get('error', '').lower()).strip('-')[:40]), 'run %s: %s' % (cid, o.get('error', '')[:200]), {'case': c, 'outcome': o})
        if o['status'] != 'ok':
            continue
        try:
            recs.append(project.project(c['problem'], c['matrices'], o['solution'], cid))
        except project.Unsupported:
            pass
    if not recs:
        raise ToolError('no layout records to judge')
    res = solve_oracle.judge(pid + '-layo', recs)
    for name, idx, rid in res.fails:
        c = by_id[rid]
        verdict.add('C15/Valid-%s/%s' % (name, solve_oracle.qualifier(name, c, next(r for r in recs if r['id'] == rid))), 'run %s (layout %s) violates %s' % (rid, c['layout'], name),
                    {'case': c, 'solution': outcomes[rid]['solution'], 'invariant': name})
    return {'runs': len(cases), 'status': dict(status), 'records_judged': len(recs), 'layouts': LAYOUTS, 'oracle_states': res.distinct}


def run(pid, tier):
    t0 = time.time()
    seed = common.seed()
    rnd = random.Random(seed * 611953 + 11)
    d = common.workdir(pid + '-par')
    # 1. design model
    mc = common.tlc('ParallelEval', cfg='MC_ParallelEval.cfg', workers=4, name=pid + '-mc', timeout=1800, xmx='8g')
    if mc.rc != 0 or mc.invariant_violated:
        raise ToolError('ParallelEval: split independence fails with non-negative activity parts: see work/tlc-%s-mc.log' % pid)
    neg = common.tlc('ParallelEval', cfg='MC_ParallelEval_neg.cfg', workers=2, name=pid + '-neg', timeout=1800)
    if 'SplitIndependent' not in neg.invariant_violated:
        raise ToolError('ParallelEval: the model does not distinguish the unsound pruning case (vacuity)')
    # 2. replay over worlds
    nextra = 4 if tier == 'quick' else 30
    extra = [insertion.random_world(rnd, k) for k in range(nextra)]
    extra += [non_metric(w, rnd) for w in extra[:max(2, nextra // 2)]]
    fx, fw, fc, fr = [os.path.join(d, x) for x in ('extra-worlds.ndjson', 'worlds.ndjson', 'cases.ndjson', 'results.ndjson')]
    common.write_ndjson(fx, extra)
    gen = common.tlc('GenParallel', cfg='GenAlgo.cfg', env={'KEEP': 7 if tier == 'quick' else 3, 'WORLDSFILE': fw, 'OUTFILE': fc, 'EXTRAWORLDS': fx}, workers=1, name=pid + '-gen', timeout=3000, xmx='8g')
    if gen.rc != 0 or 'GENERATED' not in gen.out:
        raise ToolError('GenParallel failed: see work/tlc-%s-gen.log' % pid)
    cases, worlds = common.read_ndjson(fc), common.read_ndjson(fw)
    if len(cases) < 50:
        raise ToolError('only %d cases generated' % len(cases))
    common.run_bin('parallel', ['--worlds', fw, '--in', fc, '--out', fr], timeout=3000, log=os.path.join(d, 'harness.log'), package='vh-core')
    res = common.read_ndjson(fr)
    if len(res) != 4 * len(cases):
        raise ToolError('harness answered %d of %d' % (len(res), 4 * len(cases)))
    recs = []
    for r in res:
        c = cases[r['c'] - 1]
        recs.append({'id': 'c%d%s' % (r['c'], r['goal']), 'w': c['w'], 'pairs': r['pairs'], 'runs': r['runs'], 'panic': r['panic']})
    cans = []
    can_skip = False
    try:
        b = next(r for r in recs if not r['panic'] and r['runs'][0]['cost'] and len([p for p in r['pairs'] if p]) >= 2 and len({json.dumps(p) for p in r['pairs'] if p}) >= 2)
        c = copy.deepcopy(b); c['runs'][3]['cost'] = [x + 1000 for x in c['runs'][3]['cost']]; cans.append((c, 'SameAsSequential'))
        c = copy.deepcopy(b); worst = max((p for p in c['pairs'] if p)); c['runs'] = [dict(r, cost=worst) for r in c['runs']]; cans.append((c, 'Minimal'))
        c = copy.deepcopy(b); c['panic'] = 'boom'; cans.append((c, 'NoPanic'))
    except StopIteration:
        can_skip = True          # no record to corrupt (the code under test answered nothing of that kind): judged below
    fj = os.path.join(d, 'judge.ndjson')
    common.write_ndjson(fj, recs + [c[0] for c in cans])
    jr = common.tlc('JudgeParallel', env={'RECS': fj}, workers=1, name=pid + '-judge', timeout=3000, xmx='8g')
    if jr.distinct != len(recs) + len(cans):
        raise ToolError('judge walked %d of %d' % (jr.distinct, len(recs) + len(cans)))
    got = collections.defaultdict(set)
    for name, idx, _ in jr.fails:
        got[int(idx)].add(name)
    for k, (c, expect) in enumerate(cans):
        if expect not in got[len(recs) + k + 1]:
            raise ToolError('judge vacuity: %s not rejected' % expect)
    verdict = common.Verdict(pid)
    for name, idx, rid in jr.fails:
        i = int(idx)
        if i > len(recs):
            continue
        r = recs[i - 1]
        w = worlds[r['w'] - 1]
        q = 'metric-matrix' if is_metric(w['d']) else 'non-metric-matrix'
        verdict.add('C15/%s/%s' % (name, q), 'case %s in world %s: single evaluations %s, evaluate_all %s' % (rid, w.get('name', r['w']), json.dumps(r['pairs'])[:200], json.dumps(r['runs'])[:300]),
                    {'world': w, 'case': cases[int(rid[1:-1]) - 1], 'observed': r})
    # 3. solver under layouts
    lay = layouts_part(pid, tier, rnd, verdict)
    rc = verdict.finish()
    if can_skip and rc == 0:
        raise ToolError('no base record for the vacuity canaries and no violation reported')
    cov = {'states': mc.distinct + neg.distinct + jr.distinct + lay['oracle_states'], 'transitions': mc.generated + jr.generated, 'traces_validated_against_impl': len(recs) + lay['records_judged'],
           'evaluations': sum(len(r['runs']) for r in recs) + lay['runs'], 'distinct_nontrivial': sum(1 for r in recs if len({json.dumps(p) for p in r['pairs'] if p}) >= 2),
           'rule': 'one evaluation = one evaluate_all call inside a pool of n threads on a TLC-generated context (judged against the minimum of all single evaluations), or one full solver run under a pool layout judged by the VrpModel oracle; non-trivial = contexts with at least two different feasible pair costs',
           'samples': [{'case': recs[len(recs) // 2]['id'], 'pairs': recs[len(recs) // 2]['pairs'], 'runs': recs[len(recs) // 2]['runs']}],
           'exhaustive': False, 'model_states_split_independence': mc.distinct, 'negative_part_counterexample_found': True, 'worlds': len(worlds),
           'non_metric_worlds': sum(1 for w in worlds if not is_metric(w['d'])), 'contexts': len(recs), 'pool_sizes': [1, 2, 3, 4, 8], 'layout_runs': lay,
           'canaries_rejected': len(cans), 'known_finding_hits': {k: len(v) for k, v in verdict.known_hits.items()}}
    common.write_evidence(pid, tier, 'model_checking', cov, time.time() - t0, len(verdict.violations),
                          ['integer worlds of C06 (3-4 locations, 5-8 palette jobs, two used routes + one fresh route), deterministic BestResultSelector, exhaustive leg selection; the schedule rayon chooses is not controlled, only pool sizes and repetitions; '
                           'layout runs: strata with recorded defects of C01-C03 (unreachable pairs, travel-only limits, non-metric matrices, breaks) are excluded'])
    return rc
