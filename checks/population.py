"""C08: populations against spec/Population.tla.  TLC checks the model exhaustively (all histories of 4 operations over a small
alphabet, history hidden by a VIEW) and generates 14-step histories in simulation mode for every configuration; harness bin
`population` executes them on the real Greedy / Elitism / Rosomaxa; spec/JudgePopulation.tla evaluates the properties on the
observed rankings / selections after every operation.  Corollary: harness bin `seeded` re-solves generated problems seeded with a
previously returned solution and compares both under the problem's own goal (see seeded_corollary)."""
import collections, copy, json, os, random, time
from vlib import common, pgen
from vlib.common import ToolError


def histories(num, depth, seed, name, cfg='Population_gen.cfg'):
    res = common.tlc('Population', cfg=cfg, workers=1, simulate='num=%d' % num, depth=depth, name=name, timeout=1800, seed_arg=seed, extra=['-aril', str(seed)])
    out, seen = [], set()
    for line in res.out.splitlines():
        if line.startswith('"HISTORY '):
            h = json.loads(json.loads(line)[len('HISTORY '):])
            k = common.digest(h)
            if k not in seen:
                seen.add(k); out.append(h)
    return out


def seeded_corollary(pid, tier, d, verdict):
    """solve -> S1; solve again seeded with S1 (init solution read back by the pragmatic reader) -> S2; S2 must not be worse than S1
    under the goal of the problem (order computed by the real GoalContext::total_order on both insertion contexts)."""
    rnd = random.Random(common.seed() * 7919 + 5)
    n = 60 if tier == 'quick' else 1200
    cases = []
    for i in range(n):
        # plain stratum: no conditional jobs (breaks, reloads), no custom objectives, one shift, everything reachable - the written
        # and re-read solution is then the same solution (see DESIGN: with conditional jobs the re-read seed differs from the returned one)
        plain = {k: False for k in ('breaks', 'reloads', 'resources', 'objectives', 'multishift', 'unreachable', 'travel_only', 'order', 'softorder')}
        c = pgen.make_case(rnd.randrange(1 << 30), rnd.choice(['tiny', 'small', 'small', 'medium']), features=plain)
        c['population'] = rnd.choice(['greedy', 'elitism', 'rosomaxa'])
        cases.append(c)
    fin, fout = os.path.join(d, 'seeded-cases.ndjson'), os.path.join(d, 'seeded-results.ndjson')
    common.write_ndjson(fin, cases)
    common.run_bin('seeded', ['--in', fin, '--out', fout, '--jobs', 8], timeout=6000, log=os.path.join(d, 'seeded.log'), package='vh-prag')
    res = common.read_ndjson(fout)
    stats = collections.Counter(r['status'] for r in res)
    for r in res:
        if r['status'] == 'worse':
            verdict.add('C08/SeededNotWorse/%s' % r.get('population'), 'problem %s (%s): seeded with fitness %s, returned %s' % (r['id'], r.get('population'), r.get('fitInit'), r.get('fitFinal')),
                        {'case': next(c for c in cases if c['id'] == r['id']), 'result': r})
        elif r['status'] == 'panic':
            verdict.add('C08/SeededPanic/%s' % common.digest(r.get('error', ''))[:6], 'problem %s: %s' % (r['id'], r.get('error', '')[:200]), {'case': next(c for c in cases if c['id'] == r['id']), 'result': r})
    return stats


def run(pid, tier):
    t0 = time.time()
    seed = common.seed()
    d = common.workdir(pid + '-pop')
    mc = common.tlc('Population', cfg='MC_Population_6.cfg' if tier == 'thorough' else 'MC_Population.cfg', workers=8 if tier == 'thorough' else 4, name=pid + '-mc', timeout=3000, coverage=(tier != 'thorough'), xmx='12g')
    if mc.rc != 0 or mc.invariant_violated:
        raise ToolError('Population model violates its own properties: see work/tlc-%s-mc.log' % pid)
    dead = [a for a, (x, t) in mc.coverage().items() if t == 0 and a in ('Add', 'AddAll', 'Generation', 'Select')]
    if dead:
        raise ToolError('Population model actions never taken: %s' % dead)
    hs = histories(400 if tier == 'quick' else 8000, 14, seed, pid + '-gen')
    # rosomaxa histories that reach exploitation through exploration early and keep offering individuals afterwards
    hs += histories(120 if tier == 'quick' else 2500, 14, seed + 1, pid + '-walk', cfg='Population_walk.cfg')
    by_kind = collections.Counter(h['cfg']['kind'] for h in hs)
    if len(hs) < 100 or len(by_kind) < 3:
        raise ToolError('histories generated: %s' % dict(by_kind))
    fin, fout = os.path.join(d, 'histories.ndjson'), os.path.join(d, 'results.ndjson')
    common.write_ndjson(fin, hs)
    common.run_bin('population', ['--in', fin, '--out', fout], timeout=3000, log=os.path.join(d, 'harness.log'), package='vh-roso')
    acts = common.read_ndjson(fout)
    recs = []
    offered = {}
    for a in acts:
        h = hs[a['h'] - 1]
        off = offered.setdefault(a['h'], [])
        st = h['steps'][a['s'] - 1]
        off.extend(st['op']['fs'])
        recs.append({'id': 'h%ds%d' % (a['h'], a['s']), 'cfg': h['cfg'], 'offered': list(off), 'op': st['op'], 'exp': st['exp'],
                     'act': {k: a[k] for k in ('ranked', 'size', 'phase', 'improved', 'selected', 'panic')}})
    panicked = {a['h'] for a in acts if a['panic']}
    if len(recs) + sum(len(hs[h - 1]['steps']) - max(a['s'] for a in acts if a['h'] == h) for h in panicked) != sum(len(h['steps']) for h in hs):
        raise ToolError('harness lost steps')
    # canaries: corrupted observations
    cans = []
    can_skip = False
    try:
        b = next(r for r in recs if len(r['act']['ranked']) >= 2 and r['cfg']['kind'] == 'elitism' and r['offered'][r['act']['ranked'][0] - 1] != r['offered'][r['act']['ranked'][1] - 1])
        c = copy.deepcopy(b); c['act']['ranked'] = c['act']['ranked'][1:]; cans.append((c, 'BestNoWorse'))
        c = copy.deepcopy(b); c['act']['ranked'] = list(reversed(c['act']['ranked'])); cans.append((c, 'Sorted'))
        c = copy.deepcopy(b); c['act']['ranked'] = c['act']['ranked'] + [c['act']['ranked'][-1]] * 3; cans.append((c, 'SizeBound'))
        c = copy.deepcopy(b); c['act']['ranked'] = []; c['act']['size'] = 0; cans.append((c, 'NonEmptyOnceOffered'))
        c = copy.deepcopy(b); c['act']['ranked'] = [len(c['offered']) + 5]; cans.append((c, 'RankedOffered'))
        c = copy.deepcopy(b); c['act']['panic'] = 'boom'; cans.append((c, 'NoPanic'))
        g = next(r for r in recs if r['op']['name'] == 'select' and r['act']['selected'])
        c = copy.deepcopy(g); c['act']['selected'] = []; cans.append((c, 'SelectSomething'))
        c = copy.deepcopy(g); c['act']['selected'] = [len(c['offered']) + 1]; cans.append((c, 'SelectOffered'))
        c = copy.deepcopy(g); c['act']['phase'] = 'initial' if c['act']['phase'] != 'initial' else 'exploration'; cans.append((c, 'AsModel'))
    except StopIteration:
        can_skip = True          # no record to corrupt (the code under test answered nothing of that kind): judged below
    fj = os.path.join(d, 'judge.ndjson')
    common.write_ndjson(fj, recs + [c[0] for c in cans])
    jr = common.tlc('JudgePopulation', env={'RECS': fj}, workers=1, name=pid + '-judge', timeout=6000, xmx='8g')
    if jr.distinct != len(recs) + len(cans):
        raise ToolError('judge walked %d of %d' % (jr.distinct, len(recs) + len(cans)))
    got = collections.defaultdict(set)
    for name, idx, _ in jr.fails:
        got[int(idx)].add(name)
    for k, (c, expect) in enumerate(cans):
        if expect not in got[len(recs) + k + 1]:
            raise ToolError('judge vacuity: %s not rejected' % expect)
    verdict = common.Verdict(pid)
    differs = 0
    for name, idx, rid in jr.fails:
        i = int(idx)
        if i > len(recs):
            continue
        r = recs[i - 1]
        if name == 'AsModel':
            differs += 1          # conformance with the model, reported in the evidence; the verdict is the property
            continue
        h = hs[int(rid[1:].split('s')[0]) - 1]
        verdict.add('C08/%s/%s' % (name, r['cfg']['kind']), 'history %s (%s), op %s: offered %s, observed %s' % (rid, json.dumps(r['cfg']), json.dumps(r['op']), json.dumps(r['offered']), json.dumps(r['act'])[:300]),
                    {'history': h, 'step': r})
    seeded = seeded_corollary(pid, tier, d, verdict)
    rc = verdict.finish()
    if can_skip and rc == 0:
        raise ToolError('no base record for the vacuity canaries and no violation reported')
    ops = collections.Counter(r['op']['name'] for r in recs)
    phases = collections.Counter(r['act']['phase'] for r in recs if r['cfg']['kind'] == 'rosomaxa')
    cov = {'states': mc.distinct + jr.distinct, 'transitions': mc.generated + jr.generated, 'traces_validated_against_impl': len(hs), 'evaluations': len(recs),
           'distinct_nontrivial': sum(1 for r in recs if r['op']['name'] in ('add', 'add_all') and r['op']['fs']),
           'rule': 'one evaluation = one operation of a TLC-generated history executed on a real population, with the ranking / selection observed afterwards and judged; non-trivial = operations that offer at least one individual',
           'samples': [{'cfg': recs[k]['cfg'], 'op': recs[k]['op'], 'offered': recs[k]['offered'], 'observed': recs[k]['act']} for k in (len(recs) // 3,)],
           'exhaustive': False, 'model_states': mc.distinct, 'histories_by_kind': dict(by_kind), 'operations': dict(ops), 'rosomaxa_phases_observed': dict(phases),
           'observations_differing_from_model': differs, 'seeded_resolves': dict(seeded), 'canaries_rejected': len(cans),
           'known_finding_hits': {k: len(v) for k, v in verdict.known_hits.items()}}
    common.write_evidence(pid, tier, 'model_checking', cov, time.time() - t0, len(verdict.violations),
                          ['fitness = pairs over {1..3}x{1..2}, compared lexicographically by a test objective; Elitism with the equal / same-first-component dedup rules through new_with_dedup (the default 5 % relative rule is not exercised); '
                           'Rosomaxa: elite size 1-3, initial size 4, default network parameters, individuals kept apart in weight space; histories of 14 operations; the model is exhaustively checked to depth 4 (quick) / 6 (thorough, 9.8 M states)'])
    return rc
