"""C07: the solver interrupted at every poll of the quota / every check of the termination criterion.
Model: spec/Solver.tla (MC_Solver.cfg exhaustive).  Binding: T (TraceSolver.tla accepts every recorded run as a behaviour of
the model, its invariants evaluated in every state) + O (returned solutions judged by VrpModel: C01-C03)."""
import collections, json, os, random, time
from vlib import common, pgen, project
from vlib.common import ToolError
from checks import solve_oracle


def run(pid, tier):
    t0 = time.time()
    seed = common.seed()
    rnd = random.Random(seed * 31337 + 5)
    ncases, kmax, stride = (12, 150, 5) if tier == 'quick' else (80, 2000, 3)
    cases = []
    for i in range(ncases):
        c = pgen.make_case(rnd.randrange(1 << 30), rnd.choice(['tiny', 'tiny', 'small']))
        # most runs with a maximum of 3 generations; some with 0 (nothing may run) and 1
        max_gen = 3 if i < ncases - max(4, ncases // 4) else (0 if i % 2 == 0 else 1)
        c.update({'maxGenerations': max_gen, 'threads': 1, 'kmax': kmax, 'stride': stride, 'realtime': i < (1 if tier == 'quick' else 4)})
        cases.append(c)
    # one problem whose break has a place with and a place without location (documented input: `places` are alternatives, the
    # location is optional): the recorded finding, kept under watch
    mixed = None
    for _ in range(400):
        c = pgen.make_case(rnd.randrange(1 << 30), 'tiny', features={'breaks': True, 'mixed_break_places': True, 'travel_only': False, 'unreachable': False})
        if any(len({('location' in p) for p in b.get('places', [])}) == 2 for v in c['problem']['fleet']['vehicles'] for sh in v['shifts'] for b in sh.get('breaks', [])):
            mixed = c
            break
    if mixed is not None:
        mixed.update({'maxGenerations': 3, 'threads': 1, 'kmax': 3, 'stride': 50, 'realtime': False})
        cases.append(mixed)
    MIXED = 'break with multiple places is not supported'
    # recorded inputs kept under watch (watch/*.json: finding key, the text the failure is recognised by, the case)
    import glob
    watch = {}
    for f in sorted(glob.glob(os.path.join(common.ROOT, 'watch', '*.json'))):
        w = json.load(open(f))
        wc = w['case']; wc['id'] = 'watch-' + os.path.basename(f)[:-5]
        wc.update({'maxGenerations': 3, 'threads': 1, 'kmax': 2, 'stride': 50, 'realtime': False})
        cases.append(wc); watch[wc['id']] = w
    d = common.workdir(pid + '-quota')
    fin, fout = os.path.join(d, 'cases.ndjson'), os.path.join(d, 'runs.ndjson')
    common.write_ndjson(fin, cases)
    common.run_bin('quota', ['--in', fin, '--out', fout, '--jobs', 10], timeout=7000, log=os.path.join(d, 'quota.log'), package='vh-prag')
    cases_by_id = {c['id']: c for c in cases}
    runs = [r for r in common.read_ndjson(fout) if r['mode'] != 'read']
    panicked_mixed = [r for r in runs if (mixed is not None and r['id'] == mixed['id'] and MIXED in r.get('error', '')) or (r['id'] in watch and watch[r['id']]['match'] in r.get('error', ''))]
    invalid = sum(1 for r in common.read_ndjson(fout) if r['mode'] == 'read')
    if not runs:
        raise ToolError('no runs recorded')
    verdict = common.Verdict(pid)
    # 1. model level
    mc = common.tlc('Solver', cfg='MC_Solver.cfg', workers=2, name=pid + '-mc', timeout=900, coverage=True)
    if mc.rc != 0 or mc.invariant_violated:
        raise ToolError('Solver model violates %s' % mc.invariant_violated)
    dead = [a for a, (d_, t_) in mc.coverage().items() if t_ == 0 and a[0].isupper() and a not in ('Init',)]
    if dead:
        raise ToolError('Solver model actions never taken: %s' % dead)
    # 2. every run must return normally with a solution
    for r in runs:
        rid = '%s-%s-%s' % (r['id'], r['mode'], r['k'])
        if r['status'] != 'ok':
            what = 'before-first-initial' if (r['mode'] in ('term', 'realtime') and r['k'] == 0) else r['mode']
            if mixed is not None and r['id'] == mixed['id'] and MIXED in r.get('error', ''):
                what = 'break-places-with-and-without-location'
            if r['id'] in watch and watch[r['id']]['match'] in r.get('error', ''):
                what = watch[r['id']]['key'].split('/')[-1]
            verdict.add('C07/ReturnsSolution/%s' % what, 'run %s: solver returned %s (%s) after events "%s"' % (rid, r['status'], r.get('error', '')[:120], r['events'][:80]),
                        {'case': cases_by_id[r['id']], 'run': {k: v for k, v in r.items() if k != 'solution'}})
    # 3. trace validation against the control-loop model (single-threaded runs, events in call order)
    trace, rejected, tv_states, tv_trans = [], [], 0, 0
    # one trace file (and one configuration of TraceSolver.tla) per configured maximum
    for max_gen in sorted({cases_by_id[r['id']]['maxGenerations'] for r in runs}):
        group = [r for r in runs if cases_by_id[r['id']]['maxGenerations'] == max_gen and r not in panicked_mixed]
        tg = []
        for r in group:
            ev = [{'e': x[0], 'b': x[1] == '1'} for x in r['events'].split()] if r['events'] else []
            tg.append({'id': '%s-%s-%s' % (r['id'], r['mode'], r['k']), 'mode': r['mode'], 'events': ev, 'status': 'ok' if r['status'] == 'ok' else 'err',
                       'generations': r.get('generations', -1), 'maxGenerations': max_gen, 'initMax': 4})
        ft = os.path.join(d, 'trace-%d.ndjson' % max_gen)
        common.write_ndjson(ft, tg)
        open(os.path.join(common.SPEC, 'TraceSolver_run_%s.cfg' % pid), 'w').write(open(os.path.join(common.SPEC, 'TraceSolver.cfg')).read().replace('MaxGen = 3', 'MaxGen = %d' % max_gen))
        tv = common.tlc('TraceSolver', cfg='TraceSolver_run_%s.cfg' % pid, env={'RUNS': ft}, workers=1, name=pid + '-trace', timeout=3000, deque=True, xmx='8g')
        if not tv.distinct:
            raise ToolError('TraceSolver did not run for maxGenerations=%d: see work/tlc-%s-trace.log' % (max_gen, pid))
        tv_states += tv.distinct; tv_trans += tv.generated
        rej = [l for l in tv.out.splitlines() if 'TRACE-REJECTED' in l]
        if rej:
            idx = int(rej[0].split('run ')[1].split()[0])
            bad = group[idx - 1]
            rejected.append(tg[idx - 1]['id'])
            verdict.add('C07/TraceAccepted/%s' % bad['mode'], 'run %s (maxGenerations %d) is not a behaviour of Solver.tla: events "%s" status %s generations %s' % (tg[idx - 1]['id'], max_gen, bad['events'][:200], bad['status'], bad.get('generations')),
                        {'case': cases_by_id[bad['id']], 'run': {k: v for k, v in bad.items() if k != 'solution'}})
        for rid in sorted({f[2] for f in tv.fails if f[0] == 'GenerationsBounded'}):
            # an accepted trace is a behaviour of the model in its "as the code does" configuration: the overrun is exactly one generation
            verdict.add('C07/GenerationsBounded/max-generations-plus-one', 'run %s executed more than maxGenerations=%d generations' % (rid, max_gen), {'run': rid})
        trace += tg
    # binding demonstration: a corrupted trace must be rejected
    if not rejected:
        bad = json.loads(json.dumps([t for t in trace if t['maxGenerations'] == 3][:3]))
        k = next((i for i, e in enumerate(bad[1]['events']) if e['e'] == 'q'), None)
        if k is None:
            raise ToolError('no quota poll in the second run: nothing to corrupt')
        bad[1]['events'][k]['e'] = 't'
        fb = os.path.join(d, 'trace-corrupt.ndjson')
        common.write_ndjson(fb, bad)
        open(os.path.join(common.SPEC, 'TraceSolver_run_%s.cfg' % pid), 'w').write(open(os.path.join(common.SPEC, 'TraceSolver.cfg')).read().replace('MaxGen = 3', 'MaxGen = %d' % bad[0]['maxGenerations']))
        cv = common.tlc('TraceSolver', cfg='TraceSolver_run_%s.cfg' % pid, env={'RUNS': fb}, workers=1, name=pid + '-corrupt', timeout=600, deque=True)
        if 'TRACE-REJECTED run 2' not in cv.out:
            raise ToolError('trace spec vacuity: a corrupted event was accepted')
    # 4. returned solutions satisfy C01-C03 (VrpModel oracle)
    recs, unsupported = [], 0
    for r in runs:
        if r['status'] != 'ok':
            continue
        c = cases_by_id[r['id']]
        try:
            recs.append(project.project(c['problem'], c['matrices'], r['solution'], '%s-%s-%s' % (r['id'], r['mode'], r['k'])))
        except project.Unsupported:
            unsupported += 1
    res = solve_oracle.judge(pid + '-o', recs) if recs else None
    all_unassigned = sum(1 for r in recs if not r['tours'])
    recs_by_rid = {r['id']: r for r in recs}
    origin_known = {f['key'] for f in common.load_findings() if f.get('status') == 'open' and f['property'] in ('C01', 'C02', 'C03')}
    foreign_known = {}
    if res:
        reach_bad = {rid for name, _, rid in res.fails if name == 'Reach'}
        for name, idx, rid in res.fails:
            cid = rid.split('-')[0]
            if name == 'Reach' and cases_by_id[cid].get('unreach_mode') == 'pairwise':
                continue   # C01 known finding, not a consequence of the interruption
            if rid in reach_bad:
                continue
            if name == 'LimitDuration' and not cases_by_id[cid].get('travel_only'):
                continue   # C01 known finding
            # a recorded finding of C01-C03 under its own key (stratum computed as in solve_oracle.py) is not a consequence of the interruption
            origin = next((p_ for p_, names in solve_oracle.ATTR.items() if name in names), None)
            rec_ = recs_by_rid.get(rid)
            if origin and rec_ is not None:
                okey = '%s/%s/%s' % (origin, name, solve_oracle.qualifier(name, cases_by_id[cid], rec_))
                if okey in origin_known:
                    foreign_known[okey] = foreign_known.get(okey, 0) + 1
                    continue
            verdict.add('C07/Valid/%s' % name, 'solution returned by interrupted run %s violates %s' % (rid, name),
                        {'case': cases_by_id[cid], 'run': rid, 'invariant': name})
    rc = verdict.finish()
    modes = collections.Counter(r['mode'] for r in runs)
    sample = runs[min(5, len(runs) - 1)]
    cov = {
        'states': mc.distinct + tv_states + (res.distinct if res else 0), 'transitions': mc.generated + tv_trans + (res.generated if res else 0),
        'traces_validated_against_impl': len(runs) - len(rejected),
        'evaluations': len(runs), 'distinct_nontrivial': len({(r['id'], r['mode'], r['k']) for r in runs if r['k'] >= 0}),
        'rule': 'one evaluation = one solver run on a generated valid problem with the quota turning true at its k-th poll (every k up to 40, then stride) '
                'or the termination criterion firing at its j-th check, or the real 1 s time limit with a 1.1 s pre-processing step; non-trivial = interrupted runs',
        'samples': [{'id': sample['id'], 'mode': sample['mode'], 'k': sample['k'], 'polls': sample['polls'], 'termChecks': sample['termChecks'], 'events': sample['events'][:160], 'status': sample['status']}],
        'runs_by_mode': dict(modes), 'max_poll_index': max(r['k'] for r in runs), 'solutions_judged_by_VrpModel': len(recs),
        'solutions_with_everything_unassigned': all_unassigned, 'unsupported_projection': unsupported, 'invalid_cases': invalid,
        'model_check': {'module': 'Solver', 'cfg': 'MC_Solver.cfg', 'states': mc.distinct, 'transitions': mc.generated},
        'trace_events': sum(len(t['events']) for t in trace), 'recorded_findings_of_C01_C03_met_and_not_judged_here': foreign_known, 'known_finding_hits': {k: len(v) for k, v in verdict.known_hits.items()},
    }
    common.write_evidence(pid, tier, 'model_checking', cov, time.time() - t0, len(verdict.violations),
                          ['runs are single threaded (1 pool x 1 thread) so that the event order is the call order',
                           'quota / termination are injected through public API (Environment.quota, EvolutionConfig.termination)'])
    return rc
