"""C11: round trips against spec/RoundTrip.tla.
 - documents: problem documents (the instantiated documents of GenValidation.tla and generated rich problems), their matrices and the
   solutions the solver wrote: ser(parse(ser(d))) == ser(d), computed on JSON values by the harness (numbers as numbers, 2 ulp);
 - initial solution: generated problems are solved, the written solution is read back with read_init_solution and written again;
   JudgeRoundTrip.tla compares the customer activities per vehicle shift (order, place = location + tag) and the unassigned sets;
 - CSV import: GenCsv.tla enumerates job / vehicle tables; the imported problem must carry exactly that data and be valid."""
import collections, copy, datetime, json, os, random, time
from vlib import project, common, pgen, vinst
from vlib.common import ToolError

BASE = datetime.datetime(2020, 7, 4)


def ts(h):
    return (BASE + datetime.timedelta(hours=h)).strftime('%Y-%m-%dT%H:%M:%SZ')


def hour(text):
    return int((datetime.datetime.strptime(text, '%Y-%m-%dT%H:%M:%SZ') - BASE).total_seconds() // 3600)


def loc_key(l):
    if l is None:
        return 'none'
    return 'i%d' % l['index'] if 'index' in l else 'g%.6f,%.6f' % (l['lat'], l['lng'])


def project_solution(S, customer_jobs):
    tours = []
    for t in S.get('tours', []):
        acts = []
        for s in t['stops']:
            for a in s['activities']:
                acts.append({'job': a['jobId'], 'type': a['type'], 'loc': loc_key(a.get('location') or s.get('location')), 'tag': a.get('jobTag') or ''})
        tours.append({'vehicle': t['vehicleId'], 'shift': t['shiftIndex'], 'acts': acts})
    un = sorted(u['jobId'] for u in (S.get('unassigned') or []) if u['jobId'] in customer_jobs)
    return {'tours': tours, 'unassigned': un}


def csv_text(rows, vrows):
    j = ['ID,LAT,LNG,DEMAND,DURATION,TW_START,TW_END']
    for r in rows:
        tw = r['tw']
        j.append('%s,%d.5,%d.25,%d,%d,%s,%s' % (r['id'], r['lat'], r['lng'], r['demand'], r['dur'], ts(tw[0]) if tw else '', ts(tw[1]) if tw else ''))
    v = ['ID,LAT,LNG,CAPACITY,TW_START,TW_END,AMOUNT,PROFILE']
    for r in vrows:
        v.append('%s,%d.5,%d.25,%d,%s,%s,%d,%s' % (r['id'], r['lat'], r['lng'], r['cap'], ts(r['s']), ts(r['e']), r['amount'], r['profile']))
    return '\n'.join(j) + '\n', '\n'.join(v) + '\n'


def project_csv_problem(P):
    def coord(l, k):
        x = l[k] - (0.5 if k == 'lat' else 0.25)
        return int(round(x)) if abs(x - round(x)) < 1e-9 else -999
    jobs = []
    for j in P['plan']['jobs']:
        tasks = []
        for key, kind in (('pickups', 'pickup'), ('deliveries', 'delivery'), ('services', 'service'), ('replacements', 'replacement')):
            for t in j.get(key) or []:
                p = t['places'][0]
                tw = p.get('times')
                tasks.append({'kind': kind, 'lat': coord(p['location'], 'lat'), 'lng': coord(p['location'], 'lng'), 'dur': int(p['duration']) if float(p['duration']).is_integer() else -1,
                              'tw': [hour(tw[0][0]), hour(tw[0][1])] if tw else [], 'hasDemand': t.get('demand') is not None, 'demand': (t.get('demand') or [0])[0],
                              'extra': len(t['places']) - 1 + (len(tw) - 1 if tw else 0) + (len(t.get('demand') or [0]) - 1)})
        jobs.append({'id': j['id'], 'tasks': [{k: t[k] for k in ('kind', 'lat', 'lng', 'dur', 'tw', 'hasDemand', 'demand')} for t in tasks]})
    vehicles = []
    for v in P['fleet']['vehicles']:
        sh = v['shifts'][0]
        vehicles.append({'type': v['typeId'], 'ids': v['vehicleIds'], 'cap': v['capacity'][0], 'lat': coord(sh['start']['location'], 'lat'), 'lng': coord(sh['start']['location'], 'lng'),
                         's': hour(sh['start']['earliest']), 'e': hour(sh['end']['latest']), 'profile': v['profile']['matrix']})
    return {'jobs': jobs, 'vehicles': vehicles, 'profiles': [p['name'] for p in P['fleet']['profiles']]}


def run(pid, tier):
    t0 = time.time()
    seed = common.seed()
    rnd = random.Random(seed * 15485863 + 3)
    d = common.workdir(pid + '-rt')
    # --- generated inputs
    fv, fcsv = os.path.join(d, 'vdocs.ndjson'), os.path.join(d, 'csv.ndjson')
    g1 = common.tlc('GenValidation', cfg='GenAlgo.cfg', env={'OUTFILE': fv, 'TIER': 'quick'}, workers=1, name=pid + '-gendoc', timeout=3000, xmx='8g')
    g2 = common.tlc('GenCsv', cfg='GenAlgo.cfg', env={'OUTFILE': fcsv, 'TIER': tier}, workers=1, name=pid + '-gencsv', timeout=3000, xmx='8g')
    if 'GENERATED' not in g1.out or 'GENERATED' not in g2.out:
        raise ToolError('generators failed: see work/tlc-%s-gen*.log' % pid)
    vdocs, tables = common.read_ndjson(fv), common.read_ndjson(fcsv)
    cases = []
    step = 5 if tier == 'quick' else 1
    for i, x in enumerate(vdocs[::step]):
        problem, matrices = vinst.instantiate(x['doc'])
        cases.append({'id': 'pv%d' % i, 'kind': 'doc', 'what': 'problem', 'doc': problem})
    n_init = 150 if tier == 'quick' else 3000
    inits = []
    for i in range(n_init):
        c = pgen.make_case(rnd.randrange(1 << 30), rnd.choice(['tiny', 'small', 'small', 'medium']), gens=rnd.choice([1, 3, 10]))
        if i % 5 == 4:
            # a required break listed in front of the optional break(s) of a shift, so late that no tour meets it: the optional breaks keep
            # their place in the list but are no longer the first entries (ids of conditional jobs are derived from positions)
            c = pgen.make_case(rnd.randrange(1 << 30), rnd.choice(['small', 'medium']), gens=rnd.choice([3, 10]), features={'breaks': True, 'travel_only': False, 'unreachable': False})
            for vt in c['problem']['fleet']['vehicles']:
                for sh in vt['shifts']:
                    if sh.get('breaks'):
                        late = sh['end']['latest'] if sh.get('end') else pgen.ts(project.ts(sh['start']['earliest']) + 90000)
                        sh['breaks'].insert(0, {'time': {'earliest': late, 'latest': late}, 'duration': 10.0})
            c['id'] += 'q'
        inits.append(c)
        cases.append({'id': 'in-' + c['id'], 'kind': 'init', 'problem': c['problem'], 'matrices': c['matrices'], 'config': c['config']})
        cases.append({'id': 'pp-' + c['id'], 'kind': 'doc', 'what': 'problem', 'doc': c['problem']})
        for k, m in enumerate(c['matrices'] or []):
            cases.append({'id': 'mx-%s-%d' % (c['id'], k), 'kind': 'doc', 'what': 'matrix', 'doc': m})
    # bundled documents written for an older format: members the current model does not have (ignored by the reader, so absent from the
    # first pass) and one solution that lacks a member that is mandatory now - stale documents, not reader defects
    STALE_MEMBERS = {'ex-basics_multi-job.basic.solution.json': 'tag', 'ex-basics_multi-job.mixed.solution.json': 'tag',
                     'ex-basics_multi-objective.maximize-value.problem.json': 'reductionFactor', 'ex-basics_unassigned.unreachable.problem.json': 'latest',
                     'ex-clustering_berlin.vicinity-continue.problem.json': 'type', 'ex-clustering_berlin.vicinity-return.problem.json': 'type'}
    STALE_DOCUMENTS = {'ex-basics_unassigned.unreachable.solution.json'}
    # the documents bundled with the repository (every documented feature appears in one of them): problems, matrices, solutions
    ex_root = os.path.join(common.REPO, 'examples', 'data', 'pragmatic')
    n_examples = 0
    for dirpath, _, files in sorted(os.walk(ex_root)):
        for f in sorted(files):
            what = 'solution' if f.endswith('.solution.json') else 'matrix' if '.matrix' in f else 'problem' if (f.endswith('.problem.json') or 'benches' in dirpath) else None
            if what:
                try:
                    doc = json.load(open(os.path.join(dirpath, f)))
                except ValueError:
                    continue
                eid = 'ex-' + os.path.relpath(os.path.join(dirpath, f), ex_root).replace('/', '_')
                if eid in STALE_DOCUMENTS:
                    continue
                cases.append({'id': eid, 'kind': 'doc', 'what': what, 'doc': doc})
                n_examples += 1
    tstep = 9 if tier == 'quick' else 2
    tabs = tables[::tstep]
    # ids are free strings: the abstract ids of the tables are written in four styles (plain, with a leading '#', numeric-looking, with a blank)
    STYLES = ['%s', '#%s', '10%s', '%s 1']
    for k, x in enumerate(tabs):
        style = STYLES[k % len(STYLES)]
        for row in x['jobs'] + x['vehicles']:
            row['id'] = style % row['id']
        jt, vt = csv_text(x['jobs'], x['vehicles'])
        cases.append({'id': 'csv%d' % x['c'], 'kind': 'csv', 'jobs': jt, 'vehicles': vt})
    fc, fr = os.path.join(d, 'cases.ndjson'), os.path.join(d, 'results.ndjson')
    common.write_ndjson(fc, cases)
    common.run_bin('roundtrip', ['--in', fc, '--out', fr, '--jobs', 8], timeout=6000, log=os.path.join(d, 'harness.log'), package='vh-prag')
    res = common.read_ndjson(fr)
    if len(res) != len(cases):
        raise ToolError('harness answered %d of %d' % (len(res), len(cases)))
    # second pass: the written solutions as documents
    sol_cases = [{'id': 'sol-' + r['id'], 'kind': 'doc', 'what': 'solution', 'doc': r['written']} for r in res if r['kind'] == 'init' and 'written' in r]
    fc2, fr2 = os.path.join(d, 'cases2.ndjson'), os.path.join(d, 'results2.ndjson')
    common.write_ndjson(fc2, sol_cases)
    common.run_bin('roundtrip', ['--in', fc2, '--out', fr2, '--jobs', 8], timeout=6000, log=os.path.join(d, 'harness2.log'), package='vh-prag')
    res2 = common.read_ndjson(fr2)
    by_id = {c['id']: c for c in cases + sol_cases}
    tab_by_id = {'csv%d' % x['c']: x for x in tabs}
    init_by_id = {'in-' + c['id']: c for c in inits}
    def overused_conditional(case, written):
        """the written solution uses more breaks / reloads in a tour than the shift defines: an invalid solution (C02), not a reader matter"""
        shifts = {(vid, si): sh for v in case['problem']['fleet']['vehicles'] for vid in v['vehicleIds'] for si, sh in enumerate(v['shifts'])}
        for t in written.get('tours', []):
            sh = shifts.get((t['vehicleId'], t['shiftIndex']), {})
            for kind, key in (('break', 'breaks'), ('reload', 'reloads')):
                used = sum(1 for s in t['stops'] for a in s['activities'] if a['type'] == kind)
                if used > len(sh.get(key) or []):
                    return True
        return False
    invalid_written = 0
    for r in res:
        if r['kind'] == 'init' and r['status'] in ('init-err', 'rewrite-err') and 'written' in r and overused_conditional(init_by_id[r['id']], r['written']):
            r['status'] = 'solve-err'; invalid_written += 1
    for r in res:
        if r['id'].startswith('ex-') and r.get('status') == 'ok':
            # bundled documents leave defaults out: only members that get LOST count, stale members aside
            gone = [m for m in r.get('lost', []) if m.rsplit('.', 1)[-1] != STALE_MEMBERS.get(r['id'])]
            r['firstPassSame'], r['firstPassDiff'] = not gone, 'members lost by the first pass: %s' % gone[:5] if gone else ''
    recs, details = [], {}
    for r in res + res2:
        rec = {'id': r['id'], 'kind': r['kind'], 'status': r['status'], 'fixpoint': bool(r.get('fixpoint', False)), 'firstPassSame': bool(r.get('firstPassSame', False)),
               'S': {'tours': [], 'unassigned': []}, 'S2': {'tours': [], 'unassigned': []}, 'rows': [], 'vrows': [], 'P': {'jobs': [], 'vehicles': [], 'profiles': []}, 'valid': False}
        if r['kind'] == 'init' and r['status'] == 'ok':
            customer = {j['id'] for j in init_by_id[r['id']]['problem']['plan']['jobs']}
            rec['S'], rec['S2'] = project_solution(r['written'], customer), project_solution(r['reread'], customer)
        if r['kind'] == 'csv':
            x = tab_by_id[r['id']]
            rec['rows'], rec['vrows'] = x['jobs'], x['vehicles']
            if r['status'] == 'ok':
                rec['P'] = project_csv_problem(r['problem'])
                rec['valid'] = bool(r['valid']['ok'])
        recs.append(rec)
        details[r['id']] = r
    # canaries
    cans = []
    can_skip = False
    try:
        b = next(r for r in recs if r['kind'] == 'init' and r['status'] == 'ok' and any(len([a for a in t['acts'] if a['type'] in ('pickup', 'delivery', 'service')]) >= 2 for t in r['S2']['tours']))
        def swap(r):
            t = next(t for t in r['S2']['tours'] if len([a for a in t['acts'] if a['type'] in ('pickup', 'delivery', 'service')]) >= 2)
            ix = [i for i, a in enumerate(t['acts']) if a['type'] in ('pickup', 'delivery', 'service')]
            t['acts'][ix[0]], t['acts'][ix[1]] = t['acts'][ix[1]], t['acts'][ix[0]]
            return t['acts'][ix[0]] != t['acts'][ix[1]]
        c = copy.deepcopy(b)
        if swap(c): cans.append((c, 'InitSameOrder'))
        c = copy.deepcopy(b); next(a for t in c['S2']['tours'] for a in t['acts'] if a['type'] in ('pickup', 'delivery', 'service'))['tag'] = 'other'; cans.append((c, 'InitSameActivities'))
        c = copy.deepcopy(b); c['S2']['unassigned'] = c['S2']['unassigned'] + ['ghost']; cans.append((c, 'InitSameUnassigned'))
        c = copy.deepcopy(b); c['S2']['tours'][0]['shift'] += 1; cans.append((c, 'InitSameJobsPerShift'))
        c = copy.deepcopy(b); c['status'] = 'init-err'; cans.append((c, 'InitReadable'))
        g = next(r for r in recs if r['kind'] == 'doc' and r['status'] == 'ok')
        c = copy.deepcopy(g); c['fixpoint'] = False; cans.append((c, 'DocFixpoint'))
        c = copy.deepcopy(g); c['firstPassSame'] = False; cans.append((c, 'DocKeptByFirstPass'))
        c = copy.deepcopy(g); c['status'] = 'parse-err'; cans.append((c, 'DocParses'))
        c = copy.deepcopy(g); c['status'] = 'panic'; cans.append((c, 'NoPanic'))
        v = next(r for r in recs if r['kind'] == 'csv' and r['status'] == 'ok' and r['valid'] and any(t['hasDemand'] for j in r['P']['jobs'] for t in j['tasks']))
        c = copy.deepcopy(v); next(t for j in c['P']['jobs'] for t in j['tasks'] if t['hasDemand'])['demand'] += 1; cans.append((c, 'CsvJobsAsTables'))
        c = copy.deepcopy(v); c['P']['vehicles'][0]['cap'] += 1; cans.append((c, 'CsvVehiclesAsTables'))
        c = copy.deepcopy(v); c['valid'] = False; cans.append((c, 'CsvValid'))
        c = copy.deepcopy(v); c['status'] = 'import-err'; cans.append((c, 'CsvImports'))
    except StopIteration:
        can_skip = True          # no record to corrupt (the code under test answered nothing of that kind): judged below
    fj = os.path.join(d, 'judge.ndjson')
    common.write_ndjson(fj, recs + [c[0] for c in cans])
    jr = common.tlc('JudgeRoundTrip', env={'RECS': fj}, workers=1, name=pid + '-judge', timeout=6000, xmx='8g')
    if jr.distinct != len(recs) + len(cans):
        raise ToolError('judge walked %d of %d' % (jr.distinct, len(recs) + len(cans)))
    got = collections.defaultdict(set)
    for name, idx, _ in jr.fails:
        got[int(idx)].add(name)
    for k, (c, expect) in enumerate(cans):
        if expect not in got[len(recs) + k + 1]:
            raise ToolError('judge vacuity: %s not rejected' % expect)
    verdict = common.Verdict(pid)
    for name, idx, rid in jr.fails:
        i = int(idx)
        if i > len(recs):
            continue
        r = details[rid]
        q = r['kind']
        if r['kind'] == 'doc':
            q = 'doc-' + by_id[rid]['what']
        if r['kind'] == 'init':
            c = init_by_id[rid]
            q = 'init/' + qualify_init(name, c, r)
        if r['kind'] == 'csv':
            x = tab_by_id[rid]
            profiles = [v['profile'] for v in x['vehicles']]
            q = 'csv/' + ('vehicle-rows-sharing-a-profile' if len(set(profiles)) < len(profiles) else 'general')
        verdict.add('C11/%s/%s' % (name, q), '%s: status %s %s' % (rid, r['status'], (r.get('error') or r.get('fixpointDiff') or r.get('firstPassDiff') or json.dumps(r.get('valid')) or '')[:200]),
                    {'input': by_id[rid] if r['kind'] != 'init' else {k: init_by_id[rid][k] for k in ('id', 'seed', 'problem', 'matrices', 'config')}, 'result': r})
    rc = verdict.finish()
    if can_skip and rc == 0:
        raise ToolError('no base record for the vacuity canaries and no violation reported')
    kinds = collections.Counter((r['kind'], by_id[r['id']].get('what', '')) for r in recs)
    cov = {'states': jr.distinct, 'transitions': jr.generated, 'traces_validated_against_impl': len(recs), 'evaluations': len(recs),
           'distinct_nontrivial': sum(1 for r in recs if r['kind'] == 'init' and r['status'] == 'ok' and r['S']['tours']),
           'rule': 'one evaluation = one document passed through serialise-parse-serialise twice, or one solve whose written solution is read back as initial solution and written again, or one CSV table pair imported; non-trivial = init round trips with at least one tour',
           'samples': [{'id': recs[-3]['id'], 'rows': recs[-3]['rows'], 'vrows': recs[-3]['vrows'], 'imported': recs[-3]['P']}], 'exhaustive': False,
           'records_by_kind': {'%s %s' % k: v for k, v in kinds.items()}, 'init_status': dict(collections.Counter(r['status'] for r in recs if r['kind'] == 'init')),
           'bundled_example_documents': n_examples, 'first_pass_differs_from_original_document': sum(1 for r in res + res2 if r['kind'] == 'doc' and r.get('status') == 'ok' and not r.get('firstPassSame')),
           'written_solutions_with_a_break_or_reload_used_twice_left_to_C02': invalid_written, 'canaries_rejected': len(cans), 'known_finding_hits': {k: len(v) for k, v in verdict.known_hits.items()}}
    common.write_evidence(pid, tier, 'model_checking', cov, time.time() - t0, len(verdict.violations),
                          ['document equality is computed by the harness on JSON values (TLC reads no floating point numbers); the float palette is what the generators produce (integers, halves, quarters, RFC3339 dates); '
                           'place identity = location + tag; CSV tables: 1-3 job rows, 1-2 vehicle rows over small palettes'])
    return rc


def qualify_init(name, case, r):
    feats = set(case.get('features', []))
    if name == 'InitReadable':
        msg = (r.get('error') or '')
        slug = ('cannot-match-job' if 'cannot match job' in msg else 'cannot-match-activities' if 'cannot match activities' in msg
                else 'double-assignment-of-identical-reloads' if 'potential double assignment' in msg and 'reload' in msg
                else 'cannot-match-break' if "cannot match 'break'" in msg else common.digest(msg)[:6])
        return slug
    if name == 'NoPanic' and 'ComponentRange' in (r.get('error') or '') and any(
            isinstance(b.get('time'), dict) for v in case['problem']['fleet']['vehicles'] for sh in v['shifts'] for b in sh.get('breaks') or []):
        # the solver's own failure on problems with required breaks (recorded under C07: a departure of f64::MAX stays in a returned
        # tour and the writer cannot format it) - no round trip takes place
        return 'required-break-schedule-out-of-range'
    return 'general'
