"""C16: routing providers against Routing.tla.  GenRouting.tla enumerates consistent and inconsistent matrix sets (distinct
entries), every query with the model's exact answer (rational for interpolated durations), pragmatic sets with named profiles and
errorCodes, and point sets for the approximation; harness bin `routing` asks the real providers; JudgeRouting.tla compares."""
import collections, copy, json, os, time
from vlib import common
from vlib.common import ToolError


def run(pid, tier):
    t0 = time.time()
    d = common.workdir(pid + '-routing')
    fc, fp, fa, fr = [os.path.join(d, x) for x in ('core.ndjson', 'prag.ndjson', 'approx.ndjson', 'results.ndjson')]
    gen = common.tlc('GenRouting', env={'OUTFILE': fc, 'OUTPRAG': fp, 'OUTAPPROX': fa}, workers=1, name=pid + '-gen', timeout=1800)
    if gen.rc != 0 or 'GENERATED' not in gen.out:
        raise ToolError('GenRouting failed: see work/tlc-%s-gen.log' % pid)
    core, prag, approx = common.read_ndjson(fc), common.read_ndjson(fp), common.read_ndjson(fa)
    common.run_bin('routing', ['--in', fc, '--prag', fp, '--approx', fa, '--out', fr], timeout=1800, log=os.path.join(d, 'harness.log'), package='vh-core')
    res = common.read_ndjson(fr)
    recs = []
    for r in res:
        if r['kind'] == 'core':
            recs.append({'kind': 'core', 'c': r['c'], 'exp': core[r['c'] - 1], 'act': r})
        elif r['kind'] == 'prag':
            recs.append({'kind': 'prag', 'c': r['c'], 'exp': prag[r['c'] - 1], 'act': r})
        else:
            recs.append({'kind': 'approx', 'c': r['c'], 'exp': approx[r['c'] - 1], 'act': r})
    verdict = common.Verdict(pid)
    for r in recs:
        if r['act'].get('built') == 'panic' or any('panic' in a for a in r['act'].get('answers', [])):
            verdict.add('C16/Panic/%s' % r['kind'], 'provider panicked on case %s %s' % (r['kind'], r['c']), r)
    recs = [r for r in recs if not (r['act'].get('built') == 'panic' or any('panic' in a for a in r['act'].get('answers', [])))]
    cans = []
    b = next(r for r in recs if r['kind'] == 'core' and r['exp']['ok'] and len(r['exp']['m']) >= 2 and r['exp']['m'][0]['ts'] >= 0)
    c = copy.deepcopy(b); c['act']['answers'][3]['durK'] += 1000; cans.append((c, 'AnswersAsModel'))
    c = copy.deepcopy(b); c['act']['answers'][5]['distK'] += 1000; cans.append((c, 'AnswersAsModel'))
    c = copy.deepcopy(b); c['act']['built'] = 'err'; cans.append((c, 'BuildAsModel'))
    g = next(r for r in recs if r['kind'] == 'prag')
    c = copy.deepcopy(g); c['act']['answers'][1]['durK'] += 7000; cans.append((c, 'PragmaticAsModel'))
    a = next(r for r in recs if r['kind'] == 'approx' and len(r['act']['dist']) >= 2)
    c = copy.deepcopy(a); c['act']['dist'][0][1] += 1; cans.append((c, 'ApproxSymmetric'))
    c = copy.deepcopy(a); c['act']['dist'][0][1] = 0; c['act']['dist'][1][0] = 0; cans.append((c, 'ApproxSeparates'))
    c = copy.deepcopy(a); c['act']['dur'][0][1] += 3; c['act']['dur'][1][0] += 3; cans.append((c, 'ApproxDurationFromSpeed'))
    a2 = next(r for r in recs if r['kind'] == 'approx' and len(set(map(tuple, r['exp']['points']))) >= 2 and len(r['exp']['points']) >= 3)
    def merge(act):
        hi = max(act['index']); act['index'] = [min(x, hi - 1) for x in act['index']]
    c = copy.deepcopy(a2); merge(c['act']); cans.append((c, 'CoordIndexIsBijection'))
    c = copy.deepcopy(a2); c['act']['unique'] += 1; cans.append((c, 'CoordIndexIsBijection'))
    c = copy.deepcopy(a2); c['act']['back'][0] = 0; cans.append((c, 'CoordIndexIsBijection'))
    fj = os.path.join(d, 'judge.ndjson')
    common.write_ndjson(fj, recs + [c[0] for c in cans])
    jr = common.tlc('JudgeRouting', env={'RECS': fj}, workers=1, name=pid + '-judge', timeout=1800)
    if jr.distinct != len(recs) + len(cans):
        raise ToolError('judge walked %d of %d' % (jr.distinct, len(recs) + len(cans)))
    got = collections.defaultdict(set)
    for name, idx, _ in jr.fails:
        got[int(idx)].add(name)
    for k, (c, expect) in enumerate(cans):
        if expect not in got[len(recs) + k + 1]:
            raise ToolError('judge vacuity: %s not rejected' % expect)
    for name, idx, rid in jr.fails:
        i = int(idx)
        if i > len(recs):
            continue
        r = recs[i - 1]
        verdict.add('C16/%s/%s' % (name, r['kind']), 'case %s %d: matrices %s built=%s %s' % (r['kind'], r['c'], json.dumps([(m.get('index', m.get('profile')), m.get('ts')) for m in r['exp'].get('m', [])]), r['act'].get('built'), r['act'].get('error', '')), r)
    rc = verdict.finish()
    nq = sum(len(r['exp'].get('queries', [])) for r in recs)
    cov = {'states': jr.distinct + 1, 'transitions': jr.generated + 1, 'traces_validated_against_impl': len(recs),
           'evaluations': nq + len(recs), 'distinct_nontrivial': nq,
           'rule': 'one evaluation = one (matrix set, profile, scale, from, to, time) query answered by the real provider, or one provider construction; matrix entries are pairwise distinct; non-trivial = queries',
           'samples': [{'matrices': [(m['index'], m['ts'], m['n']) for m in core[3]['m']], 'query': core[3]['queries'][0] if core[3]['queries'] else None}],
           'exhaustive': True, 'core_sets': len(core), 'consistent_sets': sum(1 for c in core if c['ok']), 'inconsistent_sets': sum(1 for c in core if not c['ok']),
           'interpolated_queries': sum(1 for c in core for q in c['queries'] if q['dur']['den'] > 1), 'pragmatic_sets': len(prag), 'approx_matrices': sum(1 for r in recs if r['kind'] == 'approx'),
           'canaries_rejected': len(cans), 'known_finding_hits': {k: len(v) for k, v in verdict.known_hits.items()}}
    common.write_evidence(pid, tier, 'model_checking', cov, time.time() - t0, len(verdict.violations),
                          ['integer timestamps and entries; sizes 1-3; accuracy of the haversine approximation is not claimed (symmetry, zero diagonal, positive distance between different locations down to ~3 m, duration = distance / speed, coordinate index a bijection)'])
    return rc
