"""C13: scientific formats against spec/Scientific.tla.  GenSci.tla enumerates abstract instances of the three grammars over small
palettes; vlib/sciprint.py prints them; harness bin `sci` reads the text with the public readers and reports the core problem, the
routes of a short solve and the re-read text solution; JudgeSci.tla decides."""
import collections, copy, json, os, time
from vlib import common, sciprint
from vlib.common import ToolError

TASK = ('x', 'y', 's', 'e', 'svc', 'pickS', 'pickD', 'delS', 'delD')


def run(pid, tier):
    t0 = time.time()
    d = common.workdir(pid + '-sci')
    fi = os.path.join(d, 'instances.ndjson')
    gen = common.tlc('GenSci', cfg='GenAlgo.cfg', env={'OUTFILE': fi, 'TIER': tier}, workers=1, name=pid + '-gen', timeout=3000, xmx='8g')
    if gen.rc != 0 or 'GENERATED' not in gen.out:
        raise ToolError('GenSci failed: see work/tlc-%s-gen.log' % pid)
    insts = common.read_ndjson(fi)
    cases = []
    for x in insts:
        I = x['inst']
        c = {'c': x['c'], 'fmt': I['fmt'], 'rounded': I['rounded'], 'text': sciprint.text(I)}
        if I['fmt'] == 'lilim':
            c['pickups'] = [[n['id'], n['rel']] for n in I['custs'] if n['d'] > 0]
        cases.append(c)
    fc, fr = os.path.join(d, 'cases.ndjson'), os.path.join(d, 'results.ndjson')
    common.write_ndjson(fc, cases)
    common.run_bin('sci', ['--in', fc, '--out', fr], timeout=6000, log=os.path.join(d, 'harness.log'), package='vh-sci')
    res = common.read_ndjson(fr)
    if len(res) != len(cases):
        raise ToolError('harness answered %d of %d' % (len(res), len(cases)))
    recs = []
    for x, c, r in zip(insts, cases, res):
        rec = {'id': '%s%d' % (x['inst']['fmt'], x['c']), 'inst': x['inst'], 'status': r['status']}
        if r['status'] == 'ok':
            rec['P'] = {'vehicles': r['vehicles'], 'caps': r['caps'], 'depots': [{k: dd[k] for k in ('x', 'y', 's', 'e')} for dd in r['depots']],
                        'jobs': [{'id': j['id'], 'tasks': [{k: t[k] for k in TASK} for t in j['tasks']]} for j in r['jobs']], 'locs': r['locs'], 'dist': r['dist']}
            rec['shapes'] = [[t['nplaces'], t['nwindows']] for j in r['jobs'] for t in j['tasks']]
            rec['durEqualsDist'] = r['durEqualsDist']
            rec['solve'] = 'ok' if r['solve'] == 'ok' else 'err'
            rec['routes'], rec['unassigned'] = r['routes'], r['unassigned']
            rr = r['reread']
            rec['reread'] = {'status': 'skipped', 'routes': []} if rr == 'skipped' else {'status': rr['status'], 'routes': rr['routes']}
        else:
            rec.update({'P': {'vehicles': 0, 'caps': [], 'depots': [], 'jobs': [], 'locs': [], 'dist': []}, 'shapes': [], 'durEqualsDist': True, 'solve': 'err', 'routes': [], 'unassigned': [],
                        'reread': {'status': 'skipped', 'routes': []}})
        recs.append(rec)
    # canaries
    cans = []
    can_skip = False
    try:
        b = next(r for r in recs if r['status'] == 'ok' and r['inst']['fmt'] == 'solomon' and len(r['routes']) >= 1 and len(r['inst']['custs']) >= 2 and r['reread']['status'] == 'ok'
                 and any(n['d'] > 0 for n in r['inst']['custs']) and len(r['P']['locs']) >= 3)
        c = copy.deepcopy(b); c['P']['caps'][0] += 1; cans.append((c, 'FleetAsFile'))
        c = copy.deepcopy(b); c['P']['jobs'][0]['tasks'][0]['delS'] += 1; cans.append((c, 'CustomersAsFile'))
        c = copy.deepcopy(b); c['P']['jobs'][0]['tasks'][0]['e'] += 1; cans.append((c, 'CustomersAsFile'))
        c = copy.deepcopy(b); c['P']['jobs'][0]['id'] += 7; cans.append((c, 'IdsAsFile'))
        c = copy.deepcopy(b); c['P']['dist'][0][1] += 100; cans.append((c, 'DistancesEuclidean'))
        c = copy.deepcopy(b); c['reread']['routes'] = [list(reversed(x)) for x in c['reread']['routes']] + [[99]]; cans.append((c, 'InitRoundTrip'))
        c = copy.deepcopy(b); c['routes'] = c['routes'] + [list(c['routes'][0])]; cans.append((c, 'RoutesPartition'))
        c = copy.deepcopy(b); c['inst']['q'] = 0; c['P']['caps'] = [0] * len(c['P']['caps']); cans.append((c, 'RoutesFeasible'))
        c = copy.deepcopy(b); c['status'] = 'panic'; cans.append((c, 'Parsed'))
    except StopIteration:
        can_skip = True          # no record to corrupt (the code under test answered nothing of that kind): judged below
    fj = os.path.join(d, 'judge.ndjson')
    common.write_ndjson(fj, recs + [c[0] for c in cans])
    jr = common.tlc('JudgeSci', env={'RECS': fj}, workers=1, name=pid + '-judge', timeout=6000, xmx='8g')
    if jr.distinct != len(recs) + len(cans):
        raise ToolError('judge walked %d of %d' % (jr.distinct, len(recs) + len(cans)))
    got = collections.defaultdict(set)
    for name, idx, _ in jr.fails:
        got[int(idx)].add(name)
    for k, (c, expect) in enumerate(cans):
        if expect not in got[len(recs) + k + 1]:
            raise ToolError('judge vacuity: %s not rejected' % expect)
    verdict = common.Verdict(pid)
    for name, idx, rid in jr.fails:
        i = int(idx)
        if i > len(recs):
            continue
        r = recs[i - 1]
        verdict.add('C13/%s/%s' % (name, r['inst']['fmt']), 'instance %s: %s' % (rid, json.dumps({k: res[i - 1].get(k) for k in ('status', 'error', 'caps', 'jobs', 'routes', 'unassigned', 'reread', 'solve')})[:400]),
                    {'instance': r['inst'], 'text': cases[i - 1]['text'], 'observed': res[i - 1]})
    rc = verdict.finish()
    if can_skip and rc == 0:
        raise ToolError('no base record for the vacuity canaries and no violation reported')
    by = collections.Counter(r['inst']['fmt'] for r in recs)
    cov = {'states': jr.distinct, 'transitions': jr.generated, 'traces_validated_against_impl': len(recs), 'evaluations': len(recs),
           'distinct_nontrivial': sum(1 for r in recs if r['routes']),
           'rule': 'one evaluation = one generated instance text read by the public reader of its format, its core problem projected and judged, plus a 20-generation solve judged against the file data and (Solomon / TSPLIB) the text solution read back; non-trivial = instances whose solve returned at least one route',
           'samples': [{'instance': recs[5]['inst'], 'routes': recs[5]['routes']}], 'exhaustive': True, 'instances_by_format': dict(by),
           'rereads': sum(1 for r in recs if r['reread']['status'] != 'skipped'), 'canaries_rejected': len(cans),
           'known_finding_hits': {k: len(v) for k, v in verdict.known_hits.items()}}
    common.write_evidence(pid, tier, 'model_checking', cov, time.time() - t0, len(verdict.violations),
                          ['instances of 1-3 customers (Solomon), 1-3 nodes + depot (TSPLIB), 1-2 pairs (Li&Lim) over small palettes; integer coordinates 0..9; distances compared to 1/100; the printer vlib/sciprint.py follows the layout of the example files'])
    return rc
