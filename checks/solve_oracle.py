"""C01 / C02 / C03: full solver runs judged by the VrpModel oracle (O binding).

generate valid problems x configs (vlib/pgen.py)  ->  real public solve path (harness bin `solve`)
-> mechanical integer projection (vlib/project.py) -> TLC evaluates spec/VrpModel.tla definitions per record.
"""
import copy, json, os, random, time, collections
from vlib import common, pgen, project
from vlib.common import ToolError

ATTR = {
    'C01': ['PlacesAndWindows', 'Reach', 'ShiftStart', 'DepartureNotBeforeEarliest', 'DepartureNotAfterLatest', 'ShiftEnd',
            'Capacity', 'Skills', 'LimitDistance', 'LimitDuration', 'LimitTourSize', 'Groups', 'Compat', 'OrderHard', 'RelationVehicle', 'RelationOrder', 'RechargeDistance'],
    'C02': ['PartitionJobs', 'NoForeignIds', 'TourNamesVehicleShift', 'TourServesJob', 'TourTerminals',
            'TourUniqueVehicleShift', 'ConditionalDistinct'],
    'C03': ['ScheduleArrivals', 'ScheduleDepartures', 'StopLocations', 'PlaceTags', 'PlaceTagsSinglePlaceAtLocation',
            'ReportedLoad', 'StopDistances', 'TourStat', 'TourCost', 'OverallStat'],
}
ALL = [n for v in ATTR.values() for n in v]

# (name, size, count quick, count thorough)
STRATA = [('small', 'small', 900, 12000), ('tiny', 'tiny', 300, 4000), ('medium', 'medium', 150, 3000), ('large', 'large', 0, 150)]


def solve(tag, cases, jobs=8, timeout=3000):
    d = os.path.join(common.WORK, tag)
    os.makedirs(d, exist_ok=True)
    fin, fout = os.path.join(d, 'cases.ndjson'), os.path.join(d, 'outcomes.ndjson')
    common.write_ndjson(fin, cases)
    common.run_bin('solve', ['--in', fin, '--out', fout, '--jobs', jobs], timeout=timeout, log=os.path.join(d, 'solve.log'))
    out = {o['id']: o for o in common.read_ndjson(fout)}
    if len(out) != len(cases):
        raise ToolError('solve driver lost cases: %d of %d' % (len(out), len(cases)))
    return out


def qualifier(inv, case, rec):
    """Refines a finding key by the generator stratum that is known to trigger a recorded defect."""
    if case.get('init') and inv in ('PlacesAndWindows', 'ScheduleDepartures', 'ScheduleArrivals', 'TourStat', 'TourCost', 'OverallStat'):
        # seeded runs: the initial solution reader pins an offset break to the moment it had in the seed
        offset = any(isinstance(b.get('time'), list) and b['time'] and not isinstance(b['time'][0], str) or isinstance(b.get('time'), dict) and not isinstance(b['time'].get('earliest'), str)
                     for v in case['problem']['fleet']['vehicles'] for sh in v['shifts'] for b in sh.get('breaks') or [])
        if offset:
            return 'seeded-with-offset-break'
    if case.get('init') and inv in ('PlacesAndWindows', 'ShiftEnd'):
        # seeded runs: departure rescheduling on tours read from an initial solution (advanced too far / insertion into an advanced tour)
        return 'seeded-run-departure-rescheduling'
    if inv in ATTR['C01'] and inv not in ('Reach',):
        # a tour broken by a conditional job used twice (C02 ConditionalDistinct) breaks load and schedule as well
        for t in rec.get('tours', []):
            try:
                sh = rec['vehicles'][t['vix'] - 1]['shifts'][t['shift'] - 1]
            except (IndexError, KeyError):
                continue
            if any(sum(1 for a in t['flat'] if a['type'] == kind) > len(sh.get(kind + 's', [])) for kind in ('break', 'reload')):
                return 'tour-with-conditional-job-used-twice'
    if inv == 'Capacity':
        # default static-selective hyper-heuristic over the rosomaxa population on a problem with reloads: about one run in a hundred
        # returns a tour (with a reload) that takes a pickup while full - not reproduced by any single operator (C04 histories)
        cfg = case.get('config', {})
        hyper, pop = cfg.get('hyper') or {}, ((cfg.get('evolution') or {}).get('population') or {}).get('type', 'rosomaxa')
        if hyper.get('type') == 'static-selective' and 'operators' not in hyper and pop == 'rosomaxa' \
                and any(a['type'] == 'reload' for t in rec.get('tours', []) for a in t['flat']):
            return 'default-static-selective-over-rosomaxa-tour-with-reload'
    if inv == 'ConditionalDistinct':
        # a break / reload used more often in a tour than the shift defines (as opposed to one that is not defined for the shift at all)
        for t in rec.get('tours', []):
            try:
                sh = rec['vehicles'][t['vix'] - 1]['shifts'][t['shift'] - 1]
            except (IndexError, KeyError):
                continue
            for kind in ('break', 'reload'):
                used = sum(1 for a in t['flat'] if a['type'] == kind)
                if used > len(sh.get(kind + 's', [])):
                    return 'used-more-often-than-defined'
            # as many reloads as defined, but one of them twice (and another one not at all)
            used_locs = sorted(a.get('loc') for a in t['flat'] if a['type'] == 'reload')
            defined = sorted(x.get('loc') for x in sh.get('reloads', []))
            if used_locs and len(used_locs) <= len(defined) and set(used_locs) <= set(defined) and any(used_locs.count(x) > defined.count(x) for x in set(used_locs)):
                return 'one-reload-of-the-shift-used-twice'
    if inv == 'ConditionalDistinct':
        # as many (or fewer) recharge stops as the shift has stations, all of them at defined stations, one station twice
        for t in rec.get('tours', []):
            try:
                sh = rec['vehicles'][t['vix'] - 1]['shifts'][t['shift'] - 1]
            except (IndexError, KeyError):
                continue
            sig = lambda x: (x.get('loc'), x.get('tag'))
            used = [(a.get('loc'), a.get('tag'), a['end'] - a['start']) for a in t['flat'] if a['type'] == 'recharge']
            defined = [(x.get('loc'), x.get('tag'), x.get('dur')) for x in sh.get('recharge', {}).get('stations', [])]
            if used and set(used) <= set(defined) and any(used.count(x) > defined.count(x) for x in set(used)):
                return 'one-recharge-station-of-the-shift-used-twice'
    if inv == 'PartitionJobs' and case.get('problem', {}).get('plan', {}).get('relations') and case.get('init') and case['id'].endswith('j'):
        # warm start with a relation job listed as unassigned in the initial solution: that very job is served AND still listed
        served = {a['jix'] for t in rec.get('tours', []) for a in t['flat'] if a.get('jix', 0) > 0}
        listed = {u['jix'] for u in rec.get('unassigned', [])}
        victims = {u['jobId'] for u in (case['init'].get('unassigned') or [])}
        both = {rec['jobs'][j - 1]['id'] for j in served & listed}
        lost = [j for j in range(1, len(rec.get('jobs', [])) + 1) if j not in served and j not in listed]
        if both and both <= victims and not lost:
            return 'warm-start-relation-job-served-and-still-unassigned'
    if inv == 'PartitionJobs' and case.get('problem', {}).get('plan', {}).get('relations') and not case.get('init'):
        served = {a['jix'] for t in rec.get('tours', []) for a in t['flat'] if a.get('jix', 0) > 0}
        listed = {u['jix'] for u in rec.get('unassigned', [])}
        lost = [j for j in range(1, len(rec.get('jobs', [])) + 1) if j not in served and j not in listed]
        if lost and not (served & listed):
            return 'relation-problem-job-neither-served-nor-unassigned'
        named = {x['jix'] for r in rec.get('relations', []) for x in r['jobs'] if x.get('jix', 0) > 0}
        if lost and (served & listed) and (served & listed) <= named:
            return 'relation-job-served-and-unassigned-another-job-lost'
    if inv == 'RechargeDistance':
        # the over-long stretch ends at a stop that holds two recharge activities in a row
        for t in rec.get('tours', []):
            for st in t.get('stops', []):
                if sum(1 for a in st['acts'] if a['type'] == 'recharge') >= 2:
                    return 'stretch-ending-at-two-recharge-activities-in-a-row'
    if inv == 'Reach' and case.get('construction_only') and not any(f in case.get('features', []) for f in ('reloads', 'resources', 'recharge', 'breaks')):
        # no generation ran and the problem has no conditional jobs: the returned solution was built by insertions alone (no removal
        # that could close a gap over an unreachable pair - an obsolete reload marker or a misplaced break is taken out even during
        # construction), every leg of it was evaluated
        return 'construction-only'
    if inv == 'Reach':
        return 'pairwise-unreachable' if case.get('unreach_mode') == 'pairwise' else 'location-unreachable'
    if inv in ('LimitDistance', 'LimitDuration') and not case.get('metric', True) and (inv == 'LimitDistance' or case.get('travel_only')):
        # removing a stop makes the way longer when the matrix breaks the triangle inequality; removals are not re-checked
        return 'non-metric-matrix'
    if inv == 'LimitDuration':
        return 'travel-only' if case.get('travel_only') else 'service-or-waiting'
    if inv in ('PlacesAndWindows', 'ShiftEnd') and not case.get('metric', True):
        return 'non-metric-matrix'
    if inv == 'TourServesJob':
        # tours without a customer job: do all of them hold a break (and nothing else)?
        idle = [t for t in rec.get('tours', []) if not any(a.get('jix', 0) > 0 for a in t['flat'])]
        if idle and all(any(a['type'] == 'break' for a in t['flat']) and all(a['type'] in ('departure', 'arrival', 'break') for a in t['flat']) for t in idle):
            return 'break-only-tour'
        if idle and all(all(a['type'] in ('departure', 'arrival') for a in t['flat']) for t in idle) and any(f in case.get('features', []) for f in ('reloads', 'resources')):
            return 'empty-tour-in-reload-problem'
        # a recharge stop kept alive by a break that was attached to it (neither is a customer job)
        if idle and all(any(a['type'] == 'recharge' for a in t['flat'])
                        and all(a['type'] in ('departure', 'arrival', 'break', 'recharge') for a in t['flat']) for t in idle):
            return 'recharge-only-tour'
    return 'general'


def _walk(x, fn):
    if isinstance(x, dict):
        for k, v in list(x.items()):
            r = fn(v)
            if r is not None:
                x[k] = r
            else:
                _walk(v, fn)
    elif isinstance(x, list):
        for i, v in enumerate(x):
            r = fn(v)
            if r is not None:
                x[i] = r
            else:
                _walk(v, fn)


def to_coords(case, rnd):
    """The same problem with coordinate locations and no matrices (routing approximated by the reader): every location index gets
    its own point on a 600 m square, some of them a few metres from another one."""
    c = copy.deepcopy(case)
    c['id'] = case['id'] + 'g'
    n = int(round(len(case['matrices'][0]['distances']) ** 0.5))
    pts = []
    while len(pts) < n:
        if pts and rnd.random() < 0.3:
            bx, by = rnd.choice(pts)
            p = (bx + rnd.choice([-9, -4, 3, 5, 8]), by + rnd.choice([-7, -3, 0, 4, 6]))
        else:
            p = (rnd.randrange(0, 600), rnd.randrange(0, 600))
        if p not in pts and p[0] >= 0 and p[1] >= 0:
            pts.append(p)
    coords = [{'lat': round(52.0 + y * 0.000009, 7), 'lng': round(13.0 + x * 0.0000146, 7)} for x, y in pts]
    _walk(c['problem'], lambda v: dict(coords[v['index']]) if isinstance(v, dict) and set(v.keys()) == {'index'} else None)
    c['matrices'] = None
    c['wantApprox'] = True
    c['features'] = sorted(set(c.get('features', [])) | {'coords'})
    return c


def from_coords(case, outcome):
    """Index twin of a coordinate case for the projection: locations numbered as in the reader's coordinate index, matrices as the
    reader approximated them.  Returns (problem, matrices, solution, unknown) - unknown: reported locations that are no location of the problem."""
    locs = outcome['approx']['locations']
    ix = {(l['lat'], l['lng']): k for k, l in enumerate(locs)}
    unknown = []
    def conv(v):
        if isinstance(v, dict) and set(v.keys()) == {'lat', 'lng'}:
            k = ix.get((v['lat'], v['lng']))
            if k is None:
                unknown.append(v)
                return {'index': 0}
            return {'index': k}
        return None
    problem, solution = copy.deepcopy(case['problem']), copy.deepcopy(outcome['solution'])
    _walk(problem, conv)
    in_problem = list(unknown)
    _walk(solution, conv)
    return problem, outcome['approx']['matrices'], solution, unknown, in_problem


def add_recharge(case, rnd):
    """The same problem with recharge stations on (most of) its shifts: a distance budget per stretch between two stations,
    stations at locations of the problem (with and without duration / tag / opening times)."""
    c = copy.deepcopy(case)
    c['id'] = case['id'] + 'e'
    n = int(round(len(case['matrices'][0]['distances']) ** 0.5))
    horizon = 3000
    for vt in c['problem']['fleet']['vehicles']:
        for sh in vt['shifts']:
            if rnd.random() < 0.85:
                st = []
                for k in range(rnd.choice([1, 1, 2, 3])):
                    x = {'location': {'index': rnd.randrange(n)}, 'duration': float(rnd.choice([0, 10, 20]))}
                    # two stations of a shift at one location are told apart by their tags only (as places of a task are)
                    if rnd.random() < 0.4 or any(y['location'] == x['location'] for y in st): x['tag'] = 'rc%d' % k
                    if rnd.random() < 0.2:
                        a = rnd.randrange(0, horizon, 10)
                        x['times'] = [[pgen.ts(a), pgen.ts(a + rnd.choice([200, 600, 1500]))]]
                    st.append(x)
                sh['recharges'] = {'maxDistance': float(rnd.choice([400, 700, 1000, 1500, 2500])), 'stations': st}
    c['problem']['plan'].pop('relations', None)
    c['features'] = sorted(set(c.get('features', [])) | {'recharge'})
    return c


def add_clustering(case, rnd):
    """The same problem with vicinity clustering switched on (thresholds in the range of the generated matrices)."""
    c = copy.deepcopy(case)
    c['id'] = case['id'] + 'c'
    profile = c['problem']['fleet']['profiles'][0]['name']
    serving = rnd.choice([{'type': 'original', 'parking': 0.0}, {'type': 'original', 'parking': 5.0}, {'type': 'fixed', 'value': 10.0, 'parking': 5.0},
                          {'type': 'multiplier', 'value': 0.5, 'parking': 0.0}])
    # (the reader hands `distance` to the moving-duration limit and `duration` to the moving-distance limit - clustering_reader.rs,
    # outside the listed properties - so small `duration` values cluster co-located jobs only; larger ones are in the palette too)
    threshold = {'duration': float(rnd.choice([15, 40, 120, 600, 1500])), 'distance': float(rnd.choice([150, 400, 1200]))}
    if rnd.random() < 0.5:
        threshold['maxJobsPerCluster'] = rnd.choice([2, 3])
    c['problem']['plan']['clustering'] = {'type': 'vicinity', 'profile': {'matrix': profile}, 'threshold': threshold,
                                          'visiting': rnd.choice(['continue', 'return']), 'serving': serving}
    if rnd.random() < 0.5:
        # `filtering` present (with and without ids): jobs kept out of every cluster
        ids = [j['id'] for j in c['problem']['plan']['jobs']]
        c['problem']['plan']['clustering']['filtering'] = {'excludeJobIds': rnd.sample(ids, rnd.choice([0, 0, 1, 2]) if len(ids) > 2 else 0)}
    c['features'] = sorted(set(c.get('features', [])) | {'clustering'})
    return c


def add_required_breaks(case, rnd):
    """The same problem with the breaks of its shifts replaced by *required* breaks (reserved time: a fixed moment or an offset from the
    departure, a duration).  Their schedule is outside the VrpModel oracle (DESIGN 10.8); the accounting of jobs and stops is judged."""
    c = copy.deepcopy(case)
    c['id'] = case['id'] + 'q'
    for vt in c['problem']['fleet']['vehicles']:
        for sh in vt['shifts']:
            start = project.ts(sh['start']['earliest'])
            length = (project.ts(sh['end']['latest']) - start) if sh.get('end') else 1500
            if rnd.random() < 0.8:
                brs = []
                at = rnd.randint(20, max(21, length // 2))
                for _ in range(rnd.choice([1, 1, 2])):
                    w = rnd.choice([0, 0, 30])
                    offset = rnd.random() < 0.4 and sh['start'].get('latest') == sh['start']['earliest']
                    time = {'earliest': float(at), 'latest': float(at + w)} if offset else {'earliest': pgen.ts(start + at), 'latest': pgen.ts(start + at + w)}
                    brs.append({'time': time, 'duration': float(rnd.choice([10, 30, 60]))})
                    at += 150 + rnd.randint(0, 100)
                # one kind of time per shift (mixing exact and offset times is rejected: recorded C10 finding)
                kinds = {isinstance(b['time']['earliest'], str) for b in brs}
                sh['breaks'] = brs if len(kinds) == 1 else brs[:1]
            else:
                sh.pop('breaks', None)
    c['problem']['plan'].pop('relations', None)
    c['features'] = sorted(set(c.get('features', [])) | {'required-breaks'})
    return c


def project_accounting(case, solution):
    """Slim record for JudgeAccounting.tla: who serves what, who is unassigned (no schedule)."""
    P = case['problem']
    jobs = [{'id': j['id'], 'kinds': [k2 for k, k2 in (('pickups', 'pickup'), ('deliveries', 'delivery'), ('services', 'service'), ('replacements', 'replacement')) for _ in (j.get(k) or [])]}
            for j in P['plan']['jobs']]
    vehicles = [{'id': vid, 'shifts': len(v['shifts']),
                 'conditional': [{'break': len(sh.get('breaks') or []), 'reload': len(sh.get('reloads') or []), 'recharge': len((sh.get('recharges') or {}).get('stations') or [])} for sh in v['shifts']]}
                for v in P['fleet']['vehicles'] for vid in v['vehicleIds']]
    def stat(x):
        t = x['times']
        return {'cost': int(round(x['cost'] * 1e3)), 'distance': x['distance'], 'duration': x['duration'], 'driving': t['driving'], 'serving': t['serving'],
                'waiting': t['waiting'], 'brk': t['break'], 'commuting': t.get('commuting', 0), 'parking': t.get('parking', 0)}
    tours = [{'vehicle': t['vehicleId'], 'shift': t['shiftIndex'] + 1, 'stat': stat(t['statistic']),
              'acts': [{'job': a['jobId'], 'type': a['type']} for s in t['stops'] for a in s['activities']]} for t in solution.get('tours', [])]
    un = [{'job': u['jobId'], 'nreasons': len(u.get('reasons') or [])} for u in solution.get('unassigned') or []]
    return {'id': case['id'], 'jobs': jobs, 'vehicles': vehicles, 'tours': tours, 'unassigned': un, 'stat': stat(solution['statistic'])}


def accounting_qualifier(inv, case, rec):
    """the strata of qualifier() that can be told from an accounting record"""
    customer = ('pickup', 'delivery', 'service', 'replacement')
    if inv == 'TourServesJob':
        idle = [t for t in rec['tours'] if not any(a['type'] in customer for a in t['acts'])]
        if idle and all(any(a['type'] == 'break' for a in t['acts']) and all(a['type'] in ('departure', 'arrival', 'break') for a in t['acts']) for t in idle):
            return 'break-only-tour'
        if idle and all(all(a['type'] in ('departure', 'arrival') for a in t['acts']) for t in idle) and any(f in case.get('features', []) for f in ('reloads', 'resources')):
            return 'empty-tour-in-reload-problem'
    if inv == 'ConditionalWithinDefined' and 'required-breaks' in case.get('features', []):
        # a required break met while driving is written as a stop of its own AND once more as an activity of the next stop
        # (break_writer.rs: the transit stop is inserted, then every stop that intersects the reserved time gets the break)
        for t in rec['tours']:
            n = sum(1 for a in t['acts'] if a['type'] == 'break')
            veh = next((v for v in rec['vehicles'] if v['id'] == t['vehicle']), None)
            if veh and n > veh['conditional'][t['shift'] - 1]['break'] and n <= 2 * veh['conditional'][t['shift'] - 1]['break']:
                return 'required-break-written-twice'
    if inv == 'PartitionJobs' and case.get('problem', {}).get('plan', {}).get('relations') and 'clustering' in case.get('features', []):
        served = collections.Counter(a['job'] for t in rec['tours'] for a in t['acts'] if a['type'] in customer)
        listed = collections.Counter(u['job'] for u in rec['unassigned'])
        lost = [j['id'] for j in rec['jobs'] if not served[j['id']] and not listed[j['id']]]
        both = [j['id'] for j in rec['jobs'] if served[j['id']] and listed[j['id']]]
        twice = [j['id'] for j in rec['jobs'] if served[j['id']] > len(j['kinds'])]
        if lost:
            return 'relation-problem-jobs-lost'
    return 'general'


def clustering_pass(pid, tier, cases, rnd, verdict):
    """C02 only: problems with vicinity clustering; the accounting of jobs is judged by JudgeAccounting.tla."""
    picked = [c for c in cases if rnd.random() < (0.12 if tier == 'quick' else 0.15) or (c.get('problem', {}).get('plan', {}).get('relations') and rnd.random() < 0.5)]
    ccases = [add_clustering(c, rnd) for c in picked]
    # required breaks (reserved time): accounting only, as for clustering
    ccases += [add_required_breaks(c, rnd) for c in cases if not c.get('problem', {}).get('plan', {}).get('relations') and rnd.random() < (0.1 if tier == 'quick' else 0.12)]
    out = solve(pid + '-c', ccases, jobs=10) if ccases else {}
    recs, clustered = [], 0
    for c in ccases:
        o = out[c['id']]
        if o['status'] != 'ok':
            continue
        recs.append(project_accounting(c, o['solution']))
        clustered += any(a.get('commute') for t in o['solution'].get('tours', []) for st in t['stops'] for a in st['activities'])
    if not recs:
        return {'clustering_cases': len(ccases), 'judged': 0}
    cans = []
    base = next((r for r in recs if r['tours'] and any(a['type'] in ('pickup', 'delivery', 'service', 'replacement') for a in r['tours'][0]['acts'])), None)
    if base:
        a = next(a for a in base['tours'][0]['acts'] if a['type'] in ('pickup', 'delivery', 'service', 'replacement'))
        c = copy.deepcopy(base); c['id'] = 'canary:lost'; c['tours'][0]['acts'] = [x for x in c['tours'][0]['acts'] if x['job'] != a['job']]; cans.append((c, 'PartitionJobs'))
        c = copy.deepcopy(base); c['id'] = 'canary:both'; c['unassigned'].append({'job': a['job'], 'nreasons': 1}); cans.append((c, 'PartitionJobs'))
        c = copy.deepcopy(base); c['id'] = 'canary:foreign'; c['tours'][0]['acts'].append({'job': 'ghost', 'type': 'delivery'}); cans.append((c, 'NoForeignIds'))
        c = copy.deepcopy(base); c['id'] = 'canary:vehicle'; c['tours'][0]['vehicle'] = 'nobody'; cans.append((c, 'TourNamesVehicleShift'))
        c = copy.deepcopy(base); c['id'] = 'canary:overall-parking'; c['stat']['parking'] += 7; cans.append((c, 'OverallIsSumOfTours'))
        c = copy.deepcopy(base); c['id'] = 'canary:ghost-break'
        for v in c['vehicles']:
            for sh in v['conditional']: sh['break'] = 0
        c['tours'][0]['acts'].insert(1, {'job': 'break', 'type': 'break'}); cans.append((c, 'ConditionalWithinDefined'))
        pd = next((r for r in recs if any(a['type'] == 'pickup' and any(b['type'] == 'delivery' and b['job'] == a['job'] for b in t['acts']) for t in r['tours'] for a in t['acts'])), None)
        if pd:
            c = copy.deepcopy(pd); c['id'] = 'canary:delivery-first'
            for t in c['tours']:
                t['acts'].reverse()
            cans.append((c, 'PickupBeforeDelivery'))
    d = os.path.join(common.WORK, pid + '-c')
    fj = os.path.join(d, 'accounting.ndjson')
    common.write_ndjson(fj, recs + [c[0] for c in cans])
    jr = common.tlc('JudgeAccounting', env={'RECS': fj}, workers=1, name=pid + '-acc', timeout=3000, xmx='6g')
    if jr.distinct != len(recs) + len(cans):
        raise ToolError('accounting judge walked %d of %d' % (jr.distinct, len(recs) + len(cans)))
    got = collections.defaultdict(set)
    for name, _, rid in jr.fails:
        got[rid].add(name)
    for c, expect in cans:
        if expect not in got[c['id']]:
            raise ToolError('accounting judge vacuity: %s not rejected by %s' % (c['id'], expect))
    by_id = {c['id']: c for c in ccases}
    mine = {'OverallIsSumOfTours'} if pid == 'C03' else {'PartitionJobs', 'NoForeignIds', 'TourNamesVehicleShift', 'TourServesJob', 'TourUniqueVehicleShift', 'PickupBeforeDelivery', 'ConditionalWithinDefined'}
    for name, _, rid in jr.fails:
        if rid.startswith('canary:') or name not in mine:
            continue
        q = accounting_qualifier(name, by_id[rid], next(r for r in recs if r['id'] == rid))
        # the recorded defects of conditional jobs do not depend on clustering: same key as in the other passes
        prefix = 'RequiredBreaks' if 'required-breaks' in by_id[rid].get('features', []) else 'Clustered'
        key = '%s/%s/%s' % (pid, name, q) if q in ('break-only-tour', 'empty-tour-in-reload-problem') else '%s/%s%s/%s' % (pid, prefix, name, q)
        verdict.add(key, 'record %s (vicinity clustering) violates %s' % (rid, name), {'case': by_id[rid], 'solution': out[rid]['solution'], 'invariant': name})
    return {'clustering_cases': len(ccases), 'judged': len(recs), 'solutions_with_clustered_stops': clustered, 'required_break_cases': sum(1 for c in ccases if 'required-breaks' in c.get('features', [])),
            'required_break_solutions_with_break_stops': sum(1 for c in ccases if 'required-breaks' in c.get('features', []) and out[c['id']]['status'] == 'ok' and any(a['type'] == 'break' for t in out[c['id']]['solution'].get('tours', []) for st in t['stops'] for a in st['activities'])), 'status': dict(collections.Counter(o['status'] for o in out.values()))}


def canaries(rec):
    """Single-field corruptions of an accepted record; each must be rejected by the named invariant."""
    out = []
    def mut(name, expect, fn):
        r = copy.deepcopy(rec)
        try:
            if fn(r) is False:
                return
        except (IndexError, KeyError):
            return
        r['id'] = 'canary:' + name
        out.append((r, expect))
    def t0(r): return r['tours'][0]
    def arr(r):
        s = t0(r)['stops'][1]; s['arr'] += 1
        for a in s['acts']:
            pass
    mut('arrival+1', 'ScheduleArrivals', arr)
    def load(r): t0(r)['stops'][0]['load'] = [x + 1 for x in (t0(r)['stops'][0]['load'] or [0])]
    mut('load+1', 'ReportedLoad', load)
    def dist(r): t0(r)['stops'][-1]['dist'] += 1
    mut('distance+1', 'StopDistances', dist)
    def cost(r): t0(r)['stat']['costU'] += 50
    mut('cost+50', 'TourCost', cost)
    def dup(r):
        t = t0(r); a = next(x for x in t['flat'] if x['jix'] > 0)
        t['flat'].insert(1, dict(a)); t['stops'][0]['acts'].append(dict(a))
    mut('duplicated-job', 'PartitionJobs', dup)
    def cap(r): r['vehicles'][t0(r)['vix'] - 1]['cap'] = [0] * len(r['vehicles'][t0(r)['vix'] - 1]['cap'])
    mut('capacity-0', 'Capacity', lambda r: cap(r) if any(any(d) for j in r['jobs'] for t in j['tasks'] for d in [t['demand']]) and any(
        a['type'] in ('pickup', 'delivery', 'replacement') for a in t0(r)['flat']) else False)
    def foreign(r): t0(r)['flat'][1]['jix'] = 0
    mut('foreign-id', 'NoForeignIds', lambda r: foreign(r) if t0(r)['flat'][1]['type'] in ('pickup', 'delivery', 'service', 'replacement') else False)
    def ovr(r): r['stat']['distance'] += 1
    mut('overall+1', 'OverallStat', ovr)
    def early(r): sh = r['vehicles'][t0(r)['vix'] - 1]['shifts'][t0(r)['shift'] - 1]; sh['earliest'] = t0(r)['flat'][0]['end'] + 1
    mut('earliest-after-departure', 'DepartureNotBeforeEarliest', early)
    def unserved(r): r['unassigned'].append({'job': t0(r)['flat'][1]['job'], 'jix': t0(r)['flat'][1]['jix'], 'nreasons': 1})
    mut('assigned-and-unassigned', 'PartitionJobs', lambda r: unserved(r) if t0(r)['flat'][1]['jix'] > 0 else False)
    return out


def judge(tag, recs, workers=1):
    os.makedirs(os.path.join(common.WORK, tag), exist_ok=True)
    path = os.path.join(common.WORK, tag, 'records.ndjson')
    res = common.tlc_records('OracleVrp', recs, 'RECS', path, workers=workers, name=tag, timeout=3000, xmx='6g')
    if res.distinct != len(recs):
        raise ToolError('oracle walked %d of %d records (see work/tlc-%s.log)' % (res.distinct, len(recs), tag))
    return res


def run(pid, tier):
    t0 = time.time()
    seed = common.seed()
    rnd = random.Random(seed)
    cases = []
    for name, size, nq, nt in STRATA:
        n = nq if tier == 'quick' else nt
        for i in range(n):
            cases.append(pgen.make_case(rnd.randrange(1 << 30), size))
    # long tours: 25-60 jobs on few vehicles without tight constraints (length-dependent code paths)
    for i in range(8 if tier == 'quick' else 150):
        cases.append(pgen.long_tours(pgen.make_case(rnd.randrange(1 << 30), 'large', features={'unreachable': False, 'breaks': False, 'multishift': False})))
    outcomes = solve(pid + '-a', cases, jobs=10)
    # second pass: relations derived from returned solutions of the same problems (consistent by construction)
    rel_cases = []
    for c in cases:
        o = outcomes[c['id']]
        if o['status'] == 'ok' and rnd.random() < 0.8:
            rc = pgen.derive_relations(c, o['solution'], rnd)
            if rc:
                rel_cases.append(rc)
    rel_out = solve(pid + '-b', rel_cases, jobs=10) if rel_cases else {}
    # third pass: the same problems solved again, seeded with the solution just returned (read back as initial solution)
    init_cases = []
    for c in cases:
        o = outcomes[c['id']]
        if o['status'] == 'ok' and o['solution'].get('tours') and rnd.random() < 0.3:
            ic = copy.deepcopy(c)
            ic['id'] = c['id'] + 'i'
            ic['init'] = o['solution']
            ic['config']['termination'] = {'maxGenerations': rnd.choice([0, 1, 3]) or 1, 'maxTime': 30}
            init_cases.append(ic)
    # ... and relation problems started from their own solution with one relation job taken out of its tour and listed as unassigned
    # (re-optimisation after an order was bound to a vehicle: the job is named by a lock but is in none of the initial tours)
    for rc in rel_cases:
        o = rel_out.get(rc['id'])
        if not o or o['status'] != 'ok' or rnd.random() > 0.5:
            continue
        named = [j for r in rc['problem']['plan'].get('relations', []) if r['type'] == 'any' for j in r['jobs']]
        sol = copy.deepcopy(o['solution'])
        served = [a['jobId'] for t in sol['tours'] for st in t['stops'] for a in st['activities'] if a['jobId'] in named]
        if not served:
            continue
        victim = rnd.choice(served)
        for t in sol['tours']:
            for st in t['stops']:
                st['activities'] = [a for a in st['activities'] if a['jobId'] != victim]
            t['stops'] = [st for st in t['stops'] if st['activities']]
        sol['tours'] = [t for t in sol['tours'] if any(a['type'] not in ('departure', 'arrival') for st in t['stops'] for a in st['activities'])]
        sol.setdefault('unassigned', []).append({'jobId': victim, 'reasons': [{'code': 'NO_REASON_FOUND', 'description': 'unknown'}]})
        ic = copy.deepcopy(rc)
        ic['id'] = rc['id'] + 'j'
        ic['init'] = sol
        ic['config']['termination'] = {'maxGenerations': rnd.choice([1, 3, 10]), 'maxTime': 30}
        init_cases.append(ic)
    init_out = solve(pid + '-i', init_cases, jobs=10) if init_cases else {}
    # fourth pass: coordinate twins (no matrices: the reader approximates the routing data and reports it back)
    geo_cases = [to_coords(c, rnd) for c in cases if 'unreachable' not in c.get('features', []) and rnd.random() < 0.15]
    geo_out = solve(pid + '-g', geo_cases, jobs=10) if geo_cases else {}
    # sixth pass: problems with unreachable pairs solved without any generation (the best initial solution is returned)
    con_cases = []
    for c in cases:
        if c.get('unreach_mode') == 'pairwise':
            cc = copy.deepcopy(c); cc['id'] = c['id'] + 'z'; cc['construction_only'] = True
            cc['config']['termination'] = {'maxGenerations': 0, 'maxTime': 30}
            con_cases.append(cc)
    con_out = solve(pid + '-z', con_cases, jobs=10) if con_cases else {}
    # fifth pass: recharge twins (stations and a distance budget per stretch on most shifts)
    rch_cases = [add_recharge(c, rnd) for c in cases if rnd.random() < (0.2 if tier == 'quick' else 0.25)]
    rch_out = solve(pid + '-e', rch_cases, jobs=10) if rch_cases else {}
    cases_by_id = {c['id']: c for c in cases + rel_cases + init_cases + geo_cases + rch_cases + con_cases}
    outcomes.update(rch_out)
    outcomes.update(con_out)
    outcomes.update(rel_out)
    outcomes.update(init_out)
    outcomes.update(geo_out)
    geo_unknown, geo_uncovered = {}, {}
    for c in geo_cases:
        o = outcomes[c['id']]
        if o['status'] == 'ok':
            problem_ix, matrices, solution_ix, unknown, uncovered = from_coords(c, o)
            if uncovered:
                geo_uncovered[c['id']] = uncovered
            c['problem_coords'], o['solution_coords'] = c['problem'], o['solution']
            c['problem'], c['matrices'], o['solution'] = problem_ix, matrices, solution_ix
            c['metric'] = pgen._metric(c)
            if unknown:
                geo_unknown[c['id']] = unknown

    status = collections.Counter(o['status'] for o in outcomes.values())
    recs, unsupported, not_ok = [], collections.Counter(), []
    for cid, o in outcomes.items():
        c = cases_by_id[cid]
        if o['status'] != 'ok':
            not_ok.append((cid, o['status'], o.get('error', '')[:200], o.get('codes')))
            continue
        if cid in geo_unknown:
            continue        # reported below: a location that is none of the problem's cannot be replayed
        try:
            recs.append(project.project(c['problem'], c['matrices'], o['solution'], cid))
        except project.Unsupported as e:
            unsupported[str(e)] += 1
    if not recs:
        raise ToolError('no records to judge')

    # binding / vacuity guard: corrupted copies of accepted records must be rejected by the intended invariant
    res = judge(pid + '-o', recs)
    failed_ids = {f[2] for f in res.fails}
    base = next((r for r in recs if r['id'] not in failed_ids and r['tours'] and len(r['tours'][0]['flat']) >= 4), None)
    canary_total = canary_rejected = 0
    if base is not None:
        cans = canaries(base)
        cres = judge(pid + '-c', [c[0] for c in cans])
        got = collections.defaultdict(set)
        for name, _, rid in cres.fails:
            got[rid].add(name)
        for r, expect in cans:
            canary_total += 1
            if expect in got[r['id']]:
                canary_rejected += 1
            else:
                raise ToolError('oracle vacuity: corruption %s was not rejected by %s (got %s)' % (r['id'], expect, sorted(got[r['id']])))
    # recharge canaries: a budget of 0 and a station moved elsewhere must be rejected on a record that visits a station
    rbase = next((r for r in recs if r['id'] not in failed_ids and any(a['type'] == 'recharge' for t in r['tours'] for a in t['flat'])), None)
    if rbase is not None:
        k = next(i for i, t in enumerate(rbase['tours']) if any(a['type'] == 'recharge' for a in t['flat']))
        def rsh(r): t = r['tours'][k]; return r['vehicles'][t['vix'] - 1]['shifts'][t['shift'] - 1]
        c1 = copy.deepcopy(rbase); c1['id'] = 'canary:recharge-budget-0'; rsh(c1)['recharge']['max'] = 0
        c2 = copy.deepcopy(rbase); c2['id'] = 'canary:recharge-station-elsewhere'
        for x in rsh(c2)['recharge']['stations']: x['loc'] = x['loc'] % c2['n'] + 1
        rcans = [(c1, 'RechargeDistance'), (c2, 'ConditionalDistinct')]
        cres = judge(pid + '-c', [c[0] for c in rcans])
        got = collections.defaultdict(set)
        for name, _, rid in cres.fails:
            got[rid].add(name)
        for r, expect in rcans:
            canary_total += 1
            if expect in got[r['id']]:
                canary_rejected += 1
            else:
                raise ToolError('oracle vacuity: corruption %s was not rejected by %s (got %s)' % (r['id'], expect, sorted(got[r['id']])))
    elif tier != 'quick' or len(rch_cases) > 100:
        raise ToolError('no record with a recharge stop to bind RechargeDistance to')
    if canary_total < 6:
        raise ToolError('too few canaries applicable (%d)' % canary_total)

    verdict = common.Verdict(pid)
    recs_by_id = {r['id']: r for r in recs}
    mine = set(ATTR[pid])
    others = collections.Counter()
    # a leg with a negative matrix entry makes the time replay of that record meaningless: such a record is attributed
    # to Reach only
    reach_bad = {rid for name, _, rid in res.fails if name == 'Reach'}
    TIME_FAMILY = {'PlacesAndWindows', 'ScheduleArrivals', 'ScheduleDepartures', 'ShiftEnd', 'TourStat', 'StopDistances',
                   'TourCost', 'OverallStat', 'LimitDistance', 'LimitDuration'}
    for name, idx, rid in res.fails:
        if name not in mine:
            others[name] += 1
            continue
        if rid in reach_bad and name in TIME_FAMILY:
            continue
        c = cases_by_id[rid]
        key = '%s/%s/%s' % (pid, name, qualifier(name, c, recs_by_id[rid]))
        verdict.add(key, 'record %s violates %s' % (rid, name),
                    {'case': c, 'solution': outcomes[rid]['solution'], 'invariant': name})
    if pid in ('C01', 'C03'):
        for cid, missing in geo_uncovered.items():
            verdict.add('%s/RoutingDataCoversProblemLocations/coords' % pid, 'record %s: the location index the reader derives has no entry for %s' % (cid, json.dumps(missing[:2])),
                        {'case': dict(cases_by_id[cid], problem=cases_by_id[cid]['problem_coords'], matrices=None), 'solution': outcomes[cid]['solution_coords']})
        for cid, unknown in geo_unknown.items():
            if cid in geo_uncovered:
                continue
            verdict.add('%s/ReportedLocationIsOfTheProblem/coords' % pid, 'record %s reports %s, which is no location of the problem' % (cid, json.dumps(unknown[:2])),
                        {'case': dict(cases_by_id[cid], problem=cases_by_id[cid]['problem_coords'], matrices=None), 'solution': outcomes[cid]['solution_coords']})
    clustering = clustering_pass(pid, tier, cases + rel_cases, rnd, verdict) if pid in ('C02', 'C03') else None
    rc = verdict.finish()

    feats = collections.Counter(f for c in cases_by_id.values() for f in c.get('features', []))
    nontrivial = {common.digest([r['tours'], r['unassigned']]) for r in recs if r['tours']}
    sample = recs[0]
    cov = {
        'states': res.distinct + canary_total, 'transitions': res.generated,
        'traces_validated_against_impl': len(recs),
        'evaluations': len(outcomes), 'distinct_nontrivial': len(nontrivial),
        'rule': 'one evaluation = one full solver run (generated valid pragmatic problem x solver config) recorded and judged by TLC '
                'against spec/VrpModel.tla; distinct_nontrivial = distinct (tours, unassigned) projections with at least one tour',
        'samples': [{'id': sample['id'], 'tours': [[a['job'] for a in t['flat']] for t in sample['tours']],
                     'unassigned': [u['job'] for u in sample['unassigned']], 'config': cases_by_id[sample['id']]['config']}],
        'invariants_judged': sorted(mine), 'invariants_failed_of_other_properties': dict(others),
        'solver_status': dict(status), 'not_ok_runs_not_judged_here': not_ok[:5], 'unsupported_projection': dict(unsupported),
        'relation_cases': len(rel_cases), 'seeded_cases': len(init_cases), 'construction_only_cases_with_unreachable_pairs': len(con_cases), 'recharge_cases': len(rch_cases), 'recharge_solutions_with_recharge_stops': sum(1 for c in rch_cases if outcomes[c['id']]['status'] == 'ok' and any(a['type'] == 'recharge' for t in outcomes[c['id']]['solution'].get('tours', []) for st in t['stops'] for a in st['activities'])), 'coordinate_cases': len(geo_cases), 'coordinate_cases_judged': sum(1 for c in geo_cases if outcomes[c['id']]['status'] == 'ok'), 'vicinity_clustering_pass': clustering, 'feature_counts': dict(feats),
        'canaries': {'applied': canary_total, 'rejected': canary_rejected},
        'known_finding_hits': {k: len(v) for k, v in verdict.known_hits.items()},
        'tlc_wall_s': round(res.wall, 1),
    }
    common.write_evidence(pid, tier, 'model_checking', cov, time.time() - t0, len(verdict.violations),
                          ['projection vlib/project.py is mechanical (lookups only)', 'TLC evaluates VrpModel definitions correctly',
                           'generated problems are valid per the documentation (integer stratum, index locations with explicit matrices; a coordinate stratum whose routing data is the approximation the reader itself derives - its accuracy is C16 territory)'])
    return rc


def replay(pid, path):
    """Re-judges the recorded (problem, solution) pair of a replay file with the oracle and, unless VERIF_REPLAY_NO_SOLVE is set,
    solves the recorded case again (same configuration; the solver itself is not deterministic) and judges the new solution."""
    r = json.load(open(path))
    rp = r['replay']
    c, inv = rp['case'], rp.get('invariant')
    if c.get('matrices') is None:
        # coordinate record (a location missing from the reader's index / a reported location unknown to the problem): solve again and compare the locations
        c2 = copy.deepcopy(c); c2['id'] = c['id'] + '-again'; c2['wantApprox'] = True
        o = solve(pid + '-replay', [c2], jobs=1)[c2['id']]
        if o['status'] != 'ok':
            print('re-solve: status %s %s' % (o['status'], o.get('error', '')[:200]))
            return 2
        _, _, _, unknown, uncovered = from_coords(c2, o)
        if unknown or uncovered:
            print('VIOLATION property=%s replay=%s' % (pid, path))
            print('  %s: locations without an entry in the derived routing data %s, reported locations unknown to the problem %s' % (r.get('key'), json.dumps(uncovered[:3]), json.dumps(unknown[:3])))
            return 1
        print('every location of the problem and of the new solution is covered by the derived routing data now')
        return 0
    c.pop('wantApprox', None)
    recs = [project.project(c['problem'], c['matrices'], rp['solution'], c['id'])]
    if not os.environ.get('VERIF_REPLAY_NO_SOLVE'):
        c2 = copy.deepcopy(c); c2['id'] = c['id'] + '-again'
        o = solve(pid + '-replay', [c2], jobs=1)[c2['id']]
        if o['status'] == 'ok':
            recs.append(project.project(c2['problem'], c2['matrices'], o['solution'], c2['id']))
        else:
            print('re-solve: status %s %s' % (o['status'], o.get('error', '')[:200]))
    res = judge(pid + '-replay-o', recs)
    hit = [(name, rid) for name, _, rid in res.fails if name in ATTR[pid]]
    for name, rid in hit:
        print('%s: %s violates %s' % ('recorded solution' if rid == c['id'] else 'new solution', rid, name))
    if any(rid == c['id'] and (inv is None or name == inv) for name, rid in hit):
        print('VIOLATION property=%s replay=%s' % (pid, path))
        print('  %s: %s' % (r.get('key'), r.get('description')))
        return 1
    print('the recorded solution is accepted by the oracle now (invariant %s)' % inv)
    return 0
