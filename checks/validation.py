"""C10: problem validation against Validation.tla.
GenValidation.tla enumerates abstract documents per rule family (all combinations of the family's field values over a valid base);
vlib/vinst.py instantiates them as pragmatic JSON; harness bin `validate` reads them through the public path; JudgeValidation.tla
evaluates every documented rule in its Must and May reading on every document: no panic, Must <= reported <= May, accepted iff clean."""
import collections, copy, json, os, re, time
from vlib import common, vinst
from vlib.common import ToolError


def slug(s, n=48):
    return re.sub(r'[^a-z0-9]+', '-', s.lower()).strip('-')[:n]


def qualifier(name, fam, doc, act, error):
    """Narrows a verdict to the stratum that triggers it, so that a listed finding does not hide other violations of the same kind."""
    if name == 'NoPanic':
        msg = slug((error or '').split('\n')[0])
        if fam == 'relations':
            for r in doc['relations']:
                if 'break' in r['jobs']:
                    for v in doc['vehicles']:
                        if r['vehicle'] in v['ids']:
                            ix = r['shift'] if r['hasShift'] else 0
                            if ix < len(v['shifts']):
                                bs = v['shifts'][ix]['breaks']
                                if bs and all(b['v'].startswith('req') for b in bs):
                                    return 'relation-break-on-shift-with-required-breaks-only'
        if fam == 'empty':
            if not doc['vehicles'] or any(not v['ids'] for v in doc['vehicles']):
                return 'no-vehicle-at-all'
            if any(not v.get('cap', [1]) for v in doc['vehicles']):
                return 'empty-capacity-vector'
        return fam + '/' + msg
    if name == 'Spurious_E1203':
        multi = {j['id'] for j in doc['jobs'] if any(len(t['places']) > 1 or any(p['hasTimes'] and len(p['ws']) > 1 for p in t['places']) for t in j['tasks'])}
        offending = [r for r in doc['relations'] if multi & set(r['jobs'])]
        if offending and all(r['type'] == 'any' for r in offending):
            return 'any-relation'
    if name.startswith('Unexplained_'):
        if 'E0002' in act['codes'] and any({'req-exact', 'req-off'} <= {b['v'] for b in s['breaks']} for v in doc['vehicles'] for s in v['shifts']):
            return 'mixed-required-break-time-kinds'
        if 'E0000' in act['codes'] and doc['hasObjectives'] and doc['objectives'] and all(o['type'] == 'multi-objective' for o in doc['objectives']):
            return 'only-multi-objective-entries'
        return fam
    if name == 'RejectedClean':
        if act['codes'] == ['E0002'] and any({'req-exact', 'req-off'} <= {b['v'] for b in s['breaks']} for v in doc['vehicles'] for s in v['shifts']):
            return 'E0002-mixed-required-break-time-kinds'
        return fam + '/' + '-'.join(act['codes'])
    return fam


def run(pid, tier):
    t0 = time.time()
    d = common.workdir(pid + '-validation')
    fd = os.path.join(d, 'docs.ndjson')
    gen = common.tlc('GenValidation', cfg='GenAlgo.cfg', env={'OUTFILE': fd, 'TIER': tier, 'SEED': str(common.seed() % 1000)}, workers=1, name=pid + '-gen', timeout=3000, xmx='8g')
    if gen.rc != 0 or 'GENERATED' not in gen.out:
        raise ToolError('GenValidation failed: see work/tlc-%s-gen.log' % pid)
    docs = common.read_ndjson(fd)
    cases = []
    for i, x in enumerate(docs):
        problem, matrices = vinst.instantiate(x['doc'])
        c = {'id': '%s%d' % (x['fam'], i + 1), 'problem': problem}
        if matrices is not None:
            c['matrices'] = matrices
        cases.append(c)
    fc, fr = os.path.join(d, 'cases.ndjson'), os.path.join(d, 'results.ndjson')
    common.write_ndjson(fc, cases)
    common.run_bin('validate', ['--in', fc, '--out', fr], timeout=3000, log=os.path.join(d, 'harness.log'), package='vh-prag')
    res = common.read_ndjson(fr)
    if len(res) != len(cases):
        raise ToolError('harness answered %d of %d documents' % (len(res), len(cases)))
    recs = [{'id': c['id'], 'fam': x['fam'], 'doc': x['doc'], 'act': {'status': r['status'], 'codes': r['codes']}} for c, x, r in zip(cases, docs, res)]
    errors = [r.get('error') for r in res]
    # canaries: corrupted outcomes of documents the code handled
    cans = []
    can_skip = False
    try:
        b = next(r for r in recs if r['fam'] == 'windows' and r['act']['codes'] == ['E1103']
                 and [(w['n'], w['s'] > w['e'] >= 0) for w in r['doc']['jobs'][0]['tasks'][0]['places'][0]['ws']] == [(2, True)])
        c = copy.deepcopy(b); c['act'] = {'status': 'ok', 'codes': []}; cans.append((c, 'Missed_E1103'))
        c = copy.deepcopy(b); c['act']['codes'] = ['E1103', 'E1300']; cans.append((c, 'Spurious_E1300'))
        c = copy.deepcopy(b); c['act'] = {'status': 'panic', 'codes': []}; cans.append((c, 'NoPanic'))
        g = next(r for r in recs if r['act']['status'] == 'ok' and r['fam'] == 'ids')
        c = copy.deepcopy(g); c['act'] = {'status': 'err', 'codes': ['E0002']}; cans.append((c, 'RejectedClean'))
        c = copy.deepcopy(g); c['act'] = {'status': 'err', 'codes': []}; cans.append((c, 'RejectionWithoutCode'))
        c = copy.deepcopy(b); c['act']['codes'] = ['E0000', 'E1103']; cans.append((c, 'Unexplained_E0000'))
        c = copy.deepcopy(g); c['act'] = {'status': 'undeserializable', 'codes': ['E0000']}; cans.append((c, 'Deserializable'))
    except StopIteration:
        can_skip = True          # no record to corrupt (the code under test answered nothing of that kind): judged below
    fj = os.path.join(d, 'judge.ndjson')
    common.write_ndjson(fj, recs + [c[0] for c in cans])
    jr = common.tlc('JudgeValidation', env={'RECS': fj}, workers=1, name=pid + '-judge', timeout=6000, xmx='8g')
    if jr.distinct != len(recs) + len(cans):
        raise ToolError('judge walked %d of %d' % (jr.distinct, len(recs) + len(cans)))
    got = collections.defaultdict(set)
    for name, idx, _ in jr.fails:
        got[int(idx)].add(name)
    for k, (c, expect) in enumerate(cans):
        if expect not in got[len(recs) + k + 1]:
            raise ToolError('judge vacuity: %s not rejected' % expect)
    # vacuity of the rules on the generated domain: every rule has a certain witness and a document that cannot be said to break it
    must_w, clean_w = collections.Counter(), collections.Counter()
    mm = {}
    for m in re.finditer(r'^"MM (\d+) (\[.*?\]) (\[.*?\])"$', jr.out, re.M):
        i = int(m.group(1))
        if i <= len(recs):
            mm[i] = (json.loads(m.group(2).replace('\\"', '"')), json.loads(m.group(3).replace('\\"', '"')))
    if len(mm) != len(recs):
        raise ToolError('judge emitted rule sets for %d of %d documents' % (len(mm), len(recs)))
    all_codes = set()
    for i, (must, may) in mm.items():
        must_w.update(must)
        all_codes.update(may)
    n_may_free = collections.Counter()
    for i, (must, may) in mm.items():
        for c in all_codes - set(may):
            n_may_free[c] += 1
    missing = [c for c in sorted(all_codes) if must_w[c] == 0 or n_may_free[c] == 0]
    if missing or len(all_codes) != 38:
        raise ToolError('rule vacuity: %d rules seen, without witness / non-witness: %s' % (len(all_codes), missing))
    verdict = common.Verdict(pid)
    for name, idx, rid in jr.fails:
        i = int(idx)
        if i > len(recs):
            continue
        r = recs[i - 1]
        q = qualifier(name, r['fam'], r['doc'], r['act'], errors[i - 1])
        must, may = mm[i]
        verdict.add('C10/%s/%s' % (name, q), 'document %s: reported %s %s, must %s, may %s; %s' % (r['id'], r['act']['status'], r['act']['codes'], must, may, (errors[i - 1] or '').split('\n')[0][:160]),
                    {'id': r['id'], 'abstract': r['doc'], 'problem': cases[i - 1]['problem'], 'matrices': cases[i - 1].get('matrices'), 'outcome': res[i - 1], 'must': must, 'may': may})
    rc = verdict.finish()
    if can_skip and rc == 0:
        raise ToolError('no base record for the vacuity canaries and no violation reported')
    by_fam = collections.Counter(r['fam'] for r in recs)
    cov = {'states': jr.distinct, 'transitions': jr.generated, 'traces_validated_against_impl': len(recs), 'evaluations': len(recs),
           'distinct_nontrivial': sum(1 for i in mm if mm[i][1]),
           'rule': 'one evaluation = one generated problem (+ matrix) document read through deserialize_problem + read_pragmatic and judged against all 38 documented rules in both readings; non-trivial = documents that break at least one rule in the May reading',
           'samples': [{'id': recs[k]['id'], 'outcome': recs[k]['act'], 'must': mm[k + 1][0], 'may': mm[k + 1][1]} for k in (len(recs) // 2, len(recs) - 7)],
           'exhaustive': True, 'documents_by_family': dict(by_fam), 'accepted': sum(1 for r in recs if r['act']['status'] == 'ok'),
           'rejected': sum(1 for r in recs if r['act']['status'] == 'err'), 'panicked': sum(1 for r in recs if r['act']['status'] == 'panic'),
           'certain_witnesses_per_rule': dict(must_w), 'canaries_rejected': len(cans),
           'known_finding_hits': {k: len(v) for k, v in verdict.known_hits.items()}}
    common.write_evidence(pid, tier, 'model_checking', cov, time.time() - t0, len(verdict.violations),
                          ['documents conform to the schema shape (deserialization errors are not generated); one rule family varies at a time over a valid base document, plus a cross stratum in which a job family, a fleet family and the objectives vary together (sampled); index locations with explicit matrices or coordinates; '
                           'no clustering / recharge / skills / limits; where the documentation is silent or ambiguous the rule is only in the May reading (see Validation.tla)'])
    return rc
