//! Shared plumbing of the verification harness: ndjson I/O, panic capture, argument access.
//! Nothing in here knows about the code under test.

use serde_json::Value;
use std::fs::File;
use std::io::{BufRead, BufReader, BufWriter, Write};
use std::panic::{catch_unwind, AssertUnwindSafe};

/// Reads all non-empty lines of an ndjson file.
pub fn read_ndjson(path: &str) -> Vec<Value> {
    let f = File::open(path).unwrap_or_else(|e| tool_error(&format!("cannot open {path}: {e}")));
    BufReader::new(f)
        .lines()
        .map(|l| l.unwrap())
        .filter(|l| !l.trim().is_empty())
        .map(|l| serde_json::from_str(&l).unwrap_or_else(|e| tool_error(&format!("bad json in {path}: {e}"))))
        .collect()
}

/// A line-oriented ndjson sink.
pub struct NdjsonWriter {
    w: BufWriter<File>,
    pub lines: usize,
}

impl NdjsonWriter {
    pub fn create(path: &str) -> Self {
        let f = File::create(path).unwrap_or_else(|e| tool_error(&format!("cannot create {path}: {e}")));
        Self { w: BufWriter::new(f), lines: 0 }
    }
    pub fn write(&mut self, v: &Value) {
        serde_json::to_writer(&mut self.w, v).unwrap();
        self.w.write_all(b"\n").unwrap();
        self.lines += 1;
    }
    pub fn finish(mut self) {
        self.w.flush().unwrap();
    }
}

/// Exit code 2 = tool error (never a verdict).
pub fn tool_error(msg: &str) -> ! {
    eprintln!("TOOL-ERROR: {msg}");
    std::process::exit(2)
}

thread_local! {
    static CATCH_DEPTH: std::cell::Cell<u32> = const { std::cell::Cell::new(0) };
}

/// Runs `f`, turning a panic of the code under test into data.
pub fn catch<T>(f: impl FnOnce() -> T) -> Result<T, String> {
    CATCH_DEPTH.with(|d| d.set(d.get() + 1));
    let r = catch_unwind(AssertUnwindSafe(f));
    CATCH_DEPTH.with(|d| d.set(d.get().saturating_sub(1)));
    r.map_err(|e| {
        if let Some(s) = e.downcast_ref::<&str>() {
            s.to_string()
        } else if let Some(s) = e.downcast_ref::<String>() {
            s.clone()
        } else {
            "panic".to_string()
        }
    })
}

/// Silences the default panic printer (panics are captured with [`catch`]).
pub fn quiet_panics() {
    if std::env::var("VH_BACKTRACE").is_ok() {
        return;
    }
    // a panic outside `catch` ends the harness (exit code 101): say where it came from, the driver reports it
    std::panic::set_hook(Box::new(|info| {
        if CATCH_DEPTH.with(|d| d.get()) == 0 && std::thread::current().name() == Some("main") {
            eprintln!("UNCAUGHT-PANIC: {info}");
        }
    }));
}

/// `--key value` lookup in argv.
pub fn arg(key: &str) -> Option<String> {
    let args: Vec<String> = std::env::args().collect();
    args.iter().position(|a| a == key).and_then(|i| args.get(i + 1).cloned())
}

pub fn arg_or(key: &str, default: &str) -> String {
    arg(key).unwrap_or_else(|| default.to_string())
}

pub fn arg_req(key: &str) -> String {
    arg(key).unwrap_or_else(|| tool_error(&format!("missing argument {key}")))
}

/// Small deterministic generator (splitmix64) so that harness randomness depends on VERIF_SEED only.
#[derive(Clone)]
pub struct Sm64(pub u64);

impl Sm64 {
    pub fn next(&mut self) -> u64 {
        self.0 = self.0.wrapping_add(0x9E3779B97F4A7C15);
        let mut z = self.0;
        z = (z ^ (z >> 30)).wrapping_mul(0xBF58476D1CE4E5B9);
        z = (z ^ (z >> 27)).wrapping_mul(0x94D049BB133111EB);
        z ^ (z >> 31)
    }
    pub fn below(&mut self, n: usize) -> usize {
        (self.next() % (n.max(1) as u64)) as usize
    }
    pub fn unit(&mut self) -> f64 {
        (self.next() >> 11) as f64 / (1u64 << 53) as f64
    }
}
