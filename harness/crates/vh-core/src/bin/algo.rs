//! C17 replay: inputs enumerated by TLC (spec/GenAlgo.tla, terminal states of Algo!DbSpec) are given to the public
//! lkh_optimize / create_clusters / create_kmedoids / create_hierarchical_kmedoids; every call runs on its own thread under a
//! deadline ("always terminates").  Nodes / points are 1-based in the cases and 0-based in the calls.

use serde_json::{json, Value};
use std::sync::mpsc::channel;
use std::time::Duration;
use vh_common::*;
use vrp_core::algorithms::clustering::dbscan::create_clusters;
use vrp_core::algorithms::clustering::kmedoids::{create_hierarchical_kmedoids, create_kmedoids};
use vrp_core::algorithms::lkh::*;

struct Adj {
    m: Vec<Vec<f64>>,
    nbs: Vec<Vec<usize>>,
}

impl AdjacencySpec for Adj {
    fn cost(&self, edge: &Edge) -> Cost {
        self.m[edge.0][edge.1]
    }
    fn neighbours(&self, node: Node) -> &[Node] {
        self.nbs[node].as_slice()
    }
}

fn mat(v: &Value) -> Vec<Vec<f64>> {
    v.as_array().unwrap().iter().map(|r| r.as_array().unwrap().iter().map(|x| x.as_f64().unwrap()).collect()).collect()
}

fn seq0(v: &Value) -> Vec<usize> {
    v.as_array().unwrap().iter().map(|x| x.as_u64().unwrap() as usize - 1).collect()
}

fn seqs0(v: &Value) -> Vec<Vec<usize>> {
    v.as_array().unwrap().iter().map(seq0).collect()
}

fn plus1(v: &[usize]) -> Vec<usize> {
    v.iter().map(|x| x + 1).collect()
}

/// Runs `f` on its own thread; Err("timeout") if it does not come back within `secs`.
fn deadline<T: Send + 'static>(secs: u64, f: impl FnOnce() -> T + Send + 'static) -> Result<T, String> {
    let (tx, rx) = channel();
    std::thread::Builder::new()
        .stack_size(64 << 20)
        .spawn(move || {
            let _ = tx.send(catch(f));
        })
        .unwrap();
    match rx.recv_timeout(Duration::from_secs(secs)) {
        Ok(Ok(v)) => Ok(v),
        Ok(Err(p)) => Err(format!("panic: {p}")),
        Err(_) => Err("timeout".to_string()),
    }
}

fn clusters_json(c: std::collections::HashMap<usize, Vec<usize>>) -> Value {
    let mut v: Vec<(usize, Vec<usize>)> = c.into_iter().collect();
    v.sort();
    json!(v.into_iter().map(|(m, ps)| json!({"medoid": m + 1, "members": plus1(&ps)})).collect::<Vec<_>>())
}

fn main() {
    quiet_panics();
    let secs: u64 = arg_or("--deadline", "20").parse().unwrap();
    let mut out = NdjsonWriter::create(&arg_req("--out"));
    let mut hung: std::collections::HashMap<String, usize> = Default::default();
    for (ci, case) in read_ndjson(&arg_req("--in")).iter().enumerate() {
        let kind = case["kind"].as_str().unwrap().to_string();
        // a change that makes one algorithm loop forever hangs on many inputs: a handful of witnesses per kind is enough
        // (every hung call keeps a core busy until the process exits)
        if hung.get(&kind).copied().unwrap_or(0) >= 3 {
            out.write(&json!({"c": ci + 1, "kind": kind, "status": "skipped"}));
            continue;
        }
        let res: Result<Value, String> = match kind.as_str() {
            "lkh" => {
                let (m, nbs, path) = (mat(&case["m"]), seqs0(&case["nbs"]), seq0(&case["path"]));
                deadline(secs, move || {
                    let outs = lkh_optimize(Adj { m, nbs }, path);
                    json!({ "outs": outs.iter().map(|p| plus1(p)).collect::<Vec<_>>() })
                })
            }
            "lkhgeo" => {
                // Euclidean (irrational) costs between integer grid points: float rounding is part of the input space
                let scale = case["scale"].as_f64().unwrap_or(1.);
                let pts: Vec<(f64, f64)> = case["pts"].as_array().unwrap().iter().map(|p| (p[0].as_f64().unwrap() * scale, p[1].as_f64().unwrap() * scale)).collect();
                let n = pts.len();
                let m: Vec<Vec<f64>> = (0..n).map(|i| (0..n).map(|j| ((pts[i].0 - pts[j].0).powi(2) + (pts[i].1 - pts[j].1).powi(2)).sqrt()).collect()).collect();
                let nbs: Vec<Vec<usize>> = (0..n)
                    .map(|i| {
                        let mut v: Vec<usize> = (0..n).filter(|&j| j != i).collect();
                        v.sort_by(|&a, &b| m[i][a].total_cmp(&m[i][b]));
                        v
                    })
                    .collect();
                let path = seq0(&case["path"]);
                deadline(secs, move || {
                    let closed = |p: &[usize]| -> f64 { (0..p.len()).map(|i| m[p[i]][p[(i + 1) % p.len()]]).sum::<f64>() };
                    let cost_in = closed(&path);
                    let outs = lkh_optimize(Adj { m: m.clone(), nbs }, path);
                    json!({ "outs": outs.iter().map(|p| plus1(p)).collect::<Vec<_>>(),
                            "costInU": (cost_in / scale * 1e6).round() as i64,
                            "costOutsU": outs.iter().map(|p| (closed(p) / scale * 1e6).round() as i64).collect::<Vec<_>>() })
                })
            }
            "db" => {
                let (order, nb, min_pts) = (seq0(&case["order"]), seqs0(&case["nb"]), case["minPts"].as_u64().unwrap() as usize);
                let desc = case["desc"].as_bool().unwrap_or(false);
                deadline(secs, move || {
                    let ids: Vec<usize> = (0..nb.len()).collect();
                    let points: Vec<&usize> = order.iter().map(|&p| &ids[p]).collect();
                    let clusters = create_clusters(points, min_pts, |p: &usize| {
                        let mut v: Vec<&usize> = nb[*p].iter().map(|&q| &ids[q]).collect();
                        if desc {
                            v.reverse();
                        }
                        v.into_iter()
                    });
                    json!({ "clusters": clusters.iter().map(|c| c.iter().map(|&&p| p + 1).collect::<Vec<_>>()).collect::<Vec<_>>() })
                })
            }
            "jobdb" => {
                // the job-level wrapper over the same neighbour lists: point p is a job of the given shape; every listed neighbour costs 0.5, epsilon is 1
                let (order, nb, min_pts) = (seq0(&case["order"]), seqs0(&case["nb"]), case["minPts"].as_u64().unwrap() as usize);
                let shapes: Vec<String> = case["shapes"].as_array().unwrap().iter().map(|s| s.as_str().unwrap().to_string()).collect();
                deadline(secs, move || {
                    use vrp_core::models::problem::*;
                    let with = |loc: bool| SingleBuilder::default().add_place(JobPlaceBuilder::default().location(if loc { Some(0) } else { None }).duration(1.).build().unwrap()).build().unwrap();
                    let jobs: Vec<Job> = shapes
                        .iter()
                        .enumerate()
                        .map(|(i, shape)| match shape.as_str() {
                            "single" => SingleBuilder::default().id(&format!("p{i}")).location(0).unwrap().build_as_job().unwrap(),
                            "single-noloc" => SingleBuilder::default().id(&format!("p{i}")).add_place(JobPlaceBuilder::default().location(None).duration(1.).build().unwrap()).build_as_job().unwrap(),
                            "multi" => MultiBuilder::default().id(&format!("p{i}")).add_job(with(true)).add_job(with(true)).build_as_job().unwrap(),
                            "multi-mixed" => MultiBuilder::default().id(&format!("p{i}")).add_job(with(false)).add_job(with(true)).build_as_job().unwrap(),
                            _ => MultiBuilder::default().id(&format!("p{i}")).add_job(with(false)).add_job(with(false)).build_as_job().unwrap(),
                        })
                        .collect();
                    let vehicle = VehicleBuilder::default().id("v").add_detail(VehicleDetailBuilder::default().set_start_location(0).build().unwrap()).build().unwrap();
                    let driver = Driver { costs: Costs { fixed: 0., per_distance: 0., per_driving_time: 0., per_waiting_time: 0., per_service_time: 0. }, dimens: Default::default(), details: vec![] };
                    let fleet = Fleet::new(vec![std::sync::Arc::new(driver)], vec![std::sync::Arc::new(vehicle)], |_| |_| 0);
                    let index = |job: &Job| jobs.iter().position(|j| j == job).unwrap();
                    let given: Vec<Job> = order.iter().map(|&p| jobs[p].clone()).collect();
                    let clusters = vrp_core::construction::clustering::dbscan::create_job_clusters(&given, &fleet, Some(min_pts), Some(1.), |_, job| nb[index(job)].iter().map(|&q| (&jobs[q], 0.5)));
                    match clusters {
                        Ok(cs) => json!({ "clusters": cs.iter().map(|c| { let mut v: Vec<usize> = c.iter().map(|j| index(j) + 1).collect(); v.sort(); v }).collect::<Vec<_>>() }),
                        Err(e) => json!({ "clusters": [], "error": e.to_string() }),
                    }
                })
            }
            "km" => {
                let (d, k) = (mat(&case["d"]), case["k"].as_u64().unwrap() as usize);
                deadline(secs, move || {
                    let points: Vec<usize> = (0..d.len()).collect();
                    json!({ "clusters": clusters_json(create_kmedoids(&points, k, |a, b| d[*a][*b])) })
                })
            }
            "hier" => {
                let (d, t) = (mat(&case["d"]), case["tiers"].as_u64().unwrap() as usize);
                deadline(secs, move || {
                    let points: Vec<usize> = (0..d.len()).collect();
                    let d2 = std::sync::Arc::new(d);
                    let tiers = create_hierarchical_kmedoids(&points, t, move |a, b| d2[*a][*b]);
                    json!({ "tiers": tiers.into_iter().map(clusters_json).collect::<Vec<_>>() })
                })
            }
            other => tool_error(&format!("unknown case kind {other}")),
        };
        let rec = match res {
            Ok(mut v) => {
                v["status"] = json!("ok");
                v
            }
            Err(e) => {
                if e == "timeout" {
                    *hung.entry(kind.clone()).or_default() += 1;
                }
                json!({"status": if e == "timeout" { "timeout" } else { "panic" }, "error": e})
            }
        };
        let mut rec = rec;
        rec["c"] = json!(ci + 1);
        rec["kind"] = json!(kind);
        out.write(&rec);
    }
    out.finish();
    // hung worker threads (if any) must not keep the process alive
    std::process::exit(0);
}
