//! C06 / C20 replay: worlds and cases enumerated by TLC (spec/GenInsertion.tla) are replayed into the real evaluator.
//!
//! --worlds worlds.ndjson --in cases.ndjson --out results.ndjson
//! For every case (world w, tour, palette job j) and both goals A = [unassigned, tours, distance],
//! B = [value, unassigned, cost]:
//!   single-task job: for every position p the result of eval_job_insertion_in_route(Concrete(p)), the result of
//!   Any (exhaustive legs), and the outcome of really carrying the insertion out (a cheapest recreate step):
//!   tour after, fitness vector before / after.
//!   pair job: the result of Any and the tour after carrying it out.
//! The harness reports; spec/JudgeInsertion.tla decides.

use serde_json::{json, Value};
use std::sync::Arc;
use vh_common::*;
use vrp_core::construction::features::*;
use vrp_core::construction::heuristics::*;
use vrp_pragmatic::format::JobValueDimension;
use vrp_core::models::common::*;
use vrp_core::models::problem::*;
use vrp_core::models::solution::{Activity, Place as ActPlace};
use vrp_core::prelude::*;
use vrp_core::rosomaxa::evolution::TelemetryMode;
use vrp_core::rosomaxa::prelude::HeuristicSolution;
use vrp_core::solver::search::{Recreate, RecreateWithCheapest};
use vrp_core::solver::{GreedyPopulation, RefinementContext};

const INF: f64 = 1_000_000.;

pub struct World {
    pub problem: Arc<Problem>,
    pub jobs: Vec<Job>,   // palette order
    pub spec: Value,
}

pub fn tws(v: &Value) -> Vec<TimeWindow> {
    v.as_array().unwrap().iter().map(|w| TimeWindow::new(w[0].as_f64().unwrap(), w[1].as_f64().unwrap())).collect()
}

pub fn build_world(spec: &Value, goal_kind: &str) -> World {
    let d: Vec<Vec<f64>> = spec["d"].as_array().unwrap().iter().map(|r| r.as_array().unwrap().iter().map(|x| x.as_f64().unwrap()).collect()).collect();
    let flat: Vec<f64> = d.iter().flatten().cloned().collect();
    let transport: Arc<dyn TransportCost> = Arc::new(SimpleTransportCost::new(flat.clone(), flat).unwrap());
    let loc = |v: &Value| v.as_u64().unwrap() as usize - 1;
    let jobs: Vec<Job> = spec["jobs"]
        .as_array()
        .unwrap()
        .iter()
        .enumerate()
        .map(|(i, j)| {
            let id = format!("j{}", i + 1);
            let value = j["value"].as_f64().unwrap();
            let q = j["q"].as_i64().unwrap() as i32;
            match j["kind"].as_str().unwrap() {
                "pd" => {
                    let mk = |t: &Value, demand: Demand<SingleDimLoad>| {
                        if let Some(locs) = t["locs"].as_array() {
                            // a task with places of its own: place k = location locs[k] with the single window tws[k]
                            let windows = tws(&t["tws"]);
                            let places = locs.iter().zip(windows).map(|(l, tw)| {
                                JobPlaceBuilder::default().location(Some(loc(l))).duration(t["dur"].as_f64().unwrap()).times(vec![tw]).build().unwrap()
                            });
                            return SingleBuilder::default().demand(demand).add_places(places).build().unwrap();
                        }
                        SingleBuilder::default()
                            .demand(demand)
                            .location(loc(&t["loc"]))
                            .unwrap()
                            .duration(t["dur"].as_f64().unwrap())
                            .unwrap()
                            .times(tws(&t["tws"]))
                            .unwrap()
                            .build()
                            .unwrap()
                    };
                    MultiBuilder::default()
                        .id(&id)
                        .dimension(|dimens| {
                            dimens.set_job_value(value);
                        })
                        .add_job(mk(&j["p"], Demand::pudo_pickup(q)))
                        .add_job(mk(&j["d"], Demand::pudo_delivery(q)))
                        .build_as_job()
                        .unwrap()
                }
                kind => {
                    let mut b = SingleBuilder::default().id(&id).dimension(|dimens| {
                        dimens.set_job_value(value);
                    });
                    b = match kind {
                        "del" => b.demand(Demand::<SingleDimLoad>::delivery(q)),
                        "pick" => b.demand(Demand::<SingleDimLoad>::pickup(q)),
                        "rep" => b.demand(Demand::<SingleDimLoad> {
                            pickup: (SingleDimLoad::new(q), SingleDimLoad::default()),
                            delivery: (SingleDimLoad::new(q), SingleDimLoad::default()),
                        }),
                        _ => b,
                    };
                    b.location(loc(&j["loc"])).unwrap().duration(j["dur"].as_f64().unwrap()).unwrap().times(tws(&j["tws"])).unwrap().build_as_job().unwrap()
                }
            }
        })
        .collect();
    let mut detail = VehicleDetailBuilder::default().set_start_location(loc(&spec["sloc"])).set_start_time(0.);
    if spec["closed"].as_bool().unwrap() {
        detail = detail.set_end_location(loc(&spec["eloc"])).set_end_time(spec["shiftEnd"].as_f64().unwrap());
    } else {
        assert!(spec["shiftEnd"].as_f64().unwrap() >= INF, "an open shift has no end time in the code");
    }
    let mut vehicle = VehicleBuilder::default()
        .id("v1")
        .add_detail(detail.build().unwrap())
        .capacity(SingleDimLoad::new(spec["cap"].as_i64().unwrap() as i32))
        .set_distance_cost(spec["cd"].as_f64().unwrap())
        .set_duration_cost(spec["ct"].as_f64().unwrap())
        .build()
        .unwrap();
    vehicle.costs.fixed = spec["fixed"].as_f64().unwrap();
    let capacity = CapacityFeatureBuilder::<SingleDimLoad>::new("capacity").build().unwrap();
    let unassigned = MinimizeUnassignedBuilder::new("min-unassigned").build().unwrap();
    let features = if goal_kind == "A" {
        vec![
            unassigned,
            create_minimize_tours_feature("min-tours").unwrap(),
            TransportFeatureBuilder::new("min-distance").set_transport_cost(transport.clone()).build_minimize_distance().unwrap(),
            capacity,
        ]
    } else if goal_kind == "E" {
        vec![
            unassigned,
            create_maximize_tours_feature("max-tours").unwrap(),
            TransportFeatureBuilder::new("min-distance").set_transport_cost(transport.clone()).build_minimize_distance().unwrap(),
            capacity,
        ]
    } else if goal_kind == "C" {
        // no layer with a negative estimate in front: the route-level estimate (fixed cost of a fresh tour) leads the cost vector
        vec![
            TransportFeatureBuilder::new("min-cost").set_transport_cost(transport.clone()).build_minimize_cost().unwrap(),
            unassigned,
            capacity,
        ]
    } else if goal_kind == "D" {
        vec![
            create_minimize_tours_feature("min-tours").unwrap(),
            TransportFeatureBuilder::new("min-cost").set_transport_cost(transport.clone()).build_minimize_cost().unwrap(),
            unassigned,
            capacity,
        ]
    } else {
        vec![
            create_maximize_total_job_value_feature(
                "max-value",
                JobReadValueFn::Left(Arc::new(|job| job.dimens().get_job_value().copied().unwrap_or(0.))),
                Arc::new(|job, _| job),
                ViolationCode::unknown(),
            )
            .unwrap(),
            unassigned,
            TransportFeatureBuilder::new("min-cost").set_transport_cost(transport.clone()).build_minimize_cost().unwrap(),
            capacity,
        ]
    };
    let goal = GoalContextBuilder::with_features(&features).unwrap().build().unwrap();
    let problem = Arc::new(
        ProblemBuilder::default()
            .add_jobs(jobs.clone().into_iter())
            .add_vehicles((1..=spec["vehicles"].as_u64().unwrap_or(1)).map(|k| {
                let mut v = vehicle.clone();
                v.dimens.set_vehicle_id(format!("v{k}"));
                v
            }))
            .with_goal(goal)
            .with_transport_cost(transport)
            .build()
            .unwrap(),
    );
    World { problem, jobs, spec: spec.clone() }
}


pub fn single_of(world: &World, j: usize, part: usize) -> Arc<Single> {
    match &world.jobs[j] {
        Job::Single(s) => s.clone(),
        Job::Multi(m) => m.jobs[part - 1].clone(),
    }
}

/// location (0-based) and place index of alternative w (0-based) of a task
pub fn alt_place(t: &Value, w: usize) -> (usize, usize) {
    match t["locs"].as_array() {
        Some(locs) => (locs[w].as_u64().unwrap() as usize - 1, w),
        None => (t["loc"].as_u64().unwrap() as usize - 1, 0),
    }
}

/// the alternative (1-based, 0 = none) an activity's place corresponds to
pub fn alt_of(t: &Value, a: &Activity) -> usize {
    let windows = tws(&t["tws"]);
    (0..windows.len())
        .position(|w| windows[w].start == a.place.time.start && windows[w].end == a.place.time.end && alt_place(t, w).0 == a.place.location)
        .map(|w| w + 1)
        .unwrap_or(0)
}

pub fn task_spec<'a>(world: &'a World, j: usize, part: usize) -> &'a Value {
    let jb = &world.spec["jobs"][j];
    match part {
        1 => &jb["p"],
        2 => &jb["d"],
        _ => jb,
    }
}

/// Builds a context whose single route holds exactly the given tour (activities keep the window they were given).
pub fn build_ctx(world: &World, tour: &Value, env: Arc<Environment>) -> InsertionContext {
    let problem = world.problem.clone();
    let mut ictx = InsertionContext::new(problem.clone(), env);
    ictx.solution.required.clear();
    ictx.solution.unassigned.clear();
    ictx.solution.ignored.clear();
    let acts = tour.as_array().unwrap();
    if !acts.is_empty() {
        let actor = problem.fleet.actors[0].clone();
        let mut rc = ictx.solution.registry.get_route(&actor).unwrap();
        for a in acts {
            let (j, part, w) = (a["j"].as_u64().unwrap() as usize - 1, a["part"].as_u64().unwrap() as usize, a["w"].as_u64().unwrap() as usize - 1);
            let t = task_spec(world, j, part);
            let tw = &tws(&t["tws"])[w];
            let (location, place_idx) = alt_place(t, w);
            rc.route_mut().tour.insert_last(Activity {
                place: ActPlace { idx: place_idx, location, duration: t["dur"].as_f64().unwrap(), time: tw.clone() },
                schedule: Schedule::new(0., 0.),
                job: Some(single_of(world, j, part)),
                commute: None,
            });
        }
        problem.goal.accept_route_state(&mut rc);
        ictx.solution.routes.push(rc);
    }
    problem.goal.accept_solution_state(&mut ictx.solution);
    ictx
}

/// The tour of the (only) route as spec activities [j, part, w].
pub fn read_tour(world: &World, ictx: &InsertionContext) -> Value {
    let Some(rc) = ictx.solution.routes.first() else { return json!([]) };
    let acts: Vec<Value> = rc
        .route()
        .tour
        .all_activities()
        .filter_map(|a| a.job.as_ref().map(|s| (a, s)))
        .map(|(a, single)| {
            let (j, part) = world
                .jobs
                .iter()
                .enumerate()
                .find_map(|(idx, job)| match job {
                    Job::Single(s) if Arc::ptr_eq(s, single) => Some((idx, 0)),
                    Job::Multi(m) => m.jobs.iter().position(|s| Arc::ptr_eq(s, single)).map(|p| (idx, p + 1)),
                    _ => None,
                })
                .expect("activity of unknown job");
            let t = task_spec(world, j, part);
            let w = alt_of(t, a);
            json!({"j": j + 1, "part": part, "w": w, "arr": a.schedule.arrival as i64, "dep": a.schedule.departure as i64})
        })
        .collect();
    json!(acts)
}

pub fn result_json(world: &World, r: &InsertionResult) -> Value {
    match r {
        InsertionResult::Success(s) => {
            let acts: Vec<Value> = s
                .activities
                .iter()
                .map(|(a, idx)| {
                    let single = a.job.as_ref().unwrap();
                    let (j, part) = world
                        .jobs
                        .iter()
                        .enumerate()
                        .find_map(|(i, job)| match job {
                            Job::Single(x) if Arc::ptr_eq(x, single) => Some((i, 0)),
                            Job::Multi(m) => m.jobs.iter().position(|x| Arc::ptr_eq(x, single)).map(|p| (i, p + 1)),
                            _ => None,
                        })
                        .unwrap();
                    let t = task_spec(world, j, part);
                    let w = alt_of(t, a);
                    json!({"idx": idx, "j": j + 1, "part": part, "w": w})
                })
                .collect();
            // costs are integers in these worlds; x1000 keeps possible fractions visible
            json!({"ok": true, "acts": acts, "costK": s.cost.iter().map(|c| (c * 1000.).round() as i64).collect::<Vec<_>>()})
        }
        InsertionResult::Failure(f) => json!({"ok": false, "code": f.constraint.0, "stopped": f.stopped}),
    }
}

fn main() {
    quiet_panics();
    let worlds_spec = read_ndjson(&arg_req("--worlds"));
    let cases = read_ndjson(&arg_req("--in"));
    let mut out = NdjsonWriter::create(&arg_req("--out"));
    let env = Arc::new(Environment { logger: Arc::new(|_| {}), ..Environment::default() });
    let mut worlds: std::collections::HashMap<(usize, String), World> = Default::default();
    for case in cases.iter() {
        let wi = case["w"].as_u64().unwrap() as usize;
        let j = case["j"].as_u64().unwrap() as usize - 1;
        for goal_kind in ["A", "B", "E"] {
            let world = worlds.entry((wi, goal_kind.to_string())).or_insert_with(|| build_world(&worlds_spec[wi - 1], goal_kind));
            let rec = catch(|| {
                let mut ictx = build_ctx(world, &case["tour"], env.clone());
                let cj = world.jobs[j].clone();
                ictx.solution.unassigned.insert(cj.clone(), UnassignmentInfo::Unknown);
                let tour_built = read_tour(world, &ictx);
                let leg = LegSelection::Exhaustive;
                let rs = BestResultSelector::default();
                let eval_ctx = EvaluationContext { goal: &world.problem.goal, job: &cj, leg_selection: &leg, result_selector: &rs };
                // an empty tour: evaluate against the route the registry would hand out
                let fresh;
                let rc: &RouteContext = if let Some(rc) = ictx.solution.routes.first() {
                    rc
                } else {
                    fresh = ictx.solution.registry.next_route().next().unwrap().deep_copy();
                    &fresh
                };
                let n = case["tour"].as_array().unwrap().len();
                let is_single = cj.as_single().is_some();
                let concrete: Vec<Value> = if is_single {
                    (0..=n)
                        .map(|p| {
                            let r = eval_job_insertion_in_route(&ictx, &eval_ctx, rc, InsertionPosition::Concrete(p), InsertionResult::make_failure());
                            result_json(world, &r)
                        })
                        .collect()
                } else {
                    vec![]
                };
                let any = result_json(world, &eval_job_insertion_in_route(&ictx, &eval_ctx, rc, InsertionPosition::Any, InsertionResult::make_failure()));
                // carry the insertion out through a real recreate step
                let fit_before: Vec<i64> = ictx.fitness().map(|f| (f * 1000.).round() as i64).collect();
                let population = Box::new(GreedyPopulation::new(world.problem.goal.clone(), 1, None));
                let rctx = RefinementContext::new(world.problem.clone(), population, TelemetryMode::None, env.clone());
                let after = RecreateWithCheapest::new(env.random.clone()).run(&rctx, ictx.deep_copy());
                let fit_after: Vec<i64> = after.fitness().map(|f| (f * 1000.).round() as i64).collect();
                let inserted = !after.solution.unassigned.contains_key(&cj) && after.solution.required.is_empty();
                json!({
                    "tourBuilt": tour_built, "single": is_single, "concrete": concrete, "any": any,
                    "applied": inserted, "tourAfter": read_tour(world, &after), "fitBefore": fit_before, "fitAfter": fit_after,
                })
            });
            let mut v = match rec {
                Ok(v) => v,
                Err(p) => json!({"panic": p}),
            };
            v["id"] = case["id"].clone();
            v["w"] = case["w"].clone();
            v["j"] = case["j"].clone();
            v["tour"] = case["tour"].clone();
            v["goal"] = json!(goal_kind);
            out.write(&v);
        }
    }
    out.finish();
}
