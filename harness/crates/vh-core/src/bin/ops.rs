//! Operator-history driver (C04, C05; feeds C02 / C14 too).
//!
//! Input (--in): ndjson cases {id, problem, matrices, steps, seed, threads}
//! Output (--out): ndjson, one line per observed step:
//!   {case, step, op, kind, main (is the state the history continues from), solution (pragmatic json of the state),
//!    state {required, ignored, unassigned, locked, routes[{vehicle, shift, acts, jobs}], used, available, all_actors},
//!    parent_before, parent_after, cache {d1, d2, fix, diff}, fit_equal, order_equal, panic?}
//!
//! Every shipped ruin, recreate, local operator and search operator is driven through its public trait.

use serde_json::{json, Value};
use std::collections::hash_map::DefaultHasher;
use std::hash::{Hash, Hasher};
use std::sync::Arc;
use vh_common::*;
use vrp_core::construction::heuristics::*;
use vrp_core::models::problem::{Job, JobIdDimension, VehicleIdDimension};
use vrp_core::models::Solution;
use vrp_core::prelude::*;
use vrp_core::rosomaxa::evolution::TelemetryMode;
use vrp_core::rosomaxa::prelude::{HeuristicObjective, HeuristicSearchOperator, HeuristicSolution};
use vrp_core::rosomaxa::utils::Parallelism;
use vrp_core::solver::search::*;
use vrp_core::solver::*;
use vrp_pragmatic::format::problem::PragmaticProblem;
use vrp_pragmatic::format::solution::write_pragmatic;
use vrp_pragmatic::format::ShiftIndexDimension;

/// An execution quota that is used up.
struct ReachedQuota;
impl vrp_core::rosomaxa::utils::Quota for ReachedQuota {
    fn is_reached(&self) -> bool {
        true
    }
}

fn jid(j: &Job) -> String {
    j.dimens().get_job_id().cloned().unwrap_or_default()
}

fn actor_key(a: &vrp_core::models::problem::Actor) -> String {
    format!(
        "{}#{}",
        a.vehicle.dimens.get_vehicle_id().cloned().unwrap_or_default(),
        a.vehicle.dimens.get_shift_index().copied().unwrap_or_default() + 1
    )
}

fn hash_str(s: &str) -> String {
    let mut h = DefaultHasher::new();
    s.hash(&mut h);
    format!("{:016x}", h.finish())
}

/// Cached state rendering of a context: schedules, state values (hook H1), solution-level values.
fn cache_lines(ctx: &InsertionContext) -> Vec<String> {
    let mut lines = vec![];
    let mut routes: Vec<_> = ctx.solution.routes.iter().collect();
    routes.sort_by_key(|rc| actor_key(&rc.route().actor));
    for rc in routes {
        let key = actor_key(&rc.route().actor);
        let acts: Vec<String> = rc
            .route()
            .tour
            .all_activities()
            .map(|a| {
                format!(
                    "{}@{}:{:?}-{:?}",
                    a.retrieve_job().map(|j| jid(&j)).unwrap_or_default(),
                    a.place.location,
                    a.schedule.arrival,
                    a.schedule.departure
                )
            })
            .collect();
        lines.push(format!("{key} acts {acts:?}"));
        let (vals, _opaque) = rc.state().verif_digest();
        for v in vals {
            lines.push(format!("{key} state {v}"));
        }
    }
    // solution level values of plain type; vf: (Vec<f64>) is the rosomaxa weights vector, recomputed on population add
    let (vals, _) = ctx.solution.state.verif_digest();
    for v in vals.into_iter().filter(|v| !v.starts_with("vf:")) {
        lines.push(format!("solution state {v}"));
    }
    lines
}

/// Everything observable of a context (tours, containers, registry, caches): used to show parents stay unchanged.
fn full_digest(ctx: &InsertionContext) -> String {
    let mut lines = cache_lines(ctx);
    let s = &ctx.solution;
    let ids = |v: Vec<String>| {
        let mut v = v;
        v.sort();
        format!("{v:?}")
    };
    lines.push(format!("required {}", ids(s.required.iter().map(jid).collect())));
    lines.push(format!("ignored {}", ids(s.ignored.iter().map(jid).collect())));
    lines.push(format!("unassigned {}", ids(s.unassigned.keys().map(jid).collect())));
    lines.push(format!("locked {}", ids(s.locked.iter().map(jid).collect())));
    lines.push(format!("available {}", ids(s.registry.resources().available().map(|a| actor_key(&a)).collect())));
    lines.push(format!("stale {:?}", {
        let mut v: Vec<_> = s.routes.iter().map(|rc| (actor_key(&rc.route().actor), rc.is_stale())).collect();
        v.sort();
        v
    }));
    hash_str(&lines.join("\n"))
}

fn recompute(ctx: &InsertionContext) -> InsertionContext {
    let mut copy = ctx.deep_copy();
    // discard every cached value, then recompute from the bare tours: route level first, solution level after
    let goal = copy.problem.goal.clone();
    for rc in copy.solution.routes.iter_mut() {
        rc.state_mut().clear();
        goal.accept_route_state(rc);
        if std::env::var("VH_DUMP_CACHE").is_ok() {
            eprintln!("after accept_route_state: stale={} {:?}", rc.is_stale(), rc.state().verif_digest());
        }
    }
    // per-solution values are cached as well: none of them may survive into the recomputation
    copy.solution.state = Default::default();
    goal.accept_solution_state(&mut copy.solution);
    if std::env::var("VH_DUMP_CACHE").is_ok() {
        for rc in copy.solution.routes.iter() {
            eprintln!("after accept_solution_state: stale={} {:?}", rc.is_stale(), rc.state().verif_digest());
        }
    }
    copy
}

fn tours_only(ctx: &InsertionContext) -> Vec<(String, Vec<String>)> {
    let mut v: Vec<_> = ctx
        .solution
        .routes
        .iter()
        .map(|rc| {
            (
                actor_key(&rc.route().actor),
                rc.route().tour.all_activities().map(|a| a.retrieve_job().map(|j| jid(&j)).unwrap_or_default()).collect(),
            )
        })
        .collect();
    v.sort();
    v
}

fn observe(problem: &Problem, ctx: &InsertionContext) -> Value {
    let s = &ctx.solution;
    let routes: Vec<Value> = s
        .routes
        .iter()
        .map(|rc| {
            let a = &rc.route().actor;
            let mut jobs: Vec<String> = rc.route().tour.jobs().map(jid).collect();
            jobs.sort();
            json!({
                "vehicle": a.vehicle.dimens.get_vehicle_id().cloned().unwrap_or_default(),
                "shift": a.vehicle.dimens.get_shift_index().copied().unwrap_or_default() + 1,
                "acts": rc.route().tour.all_activities().map(|a| a.retrieve_job().map(|j| jid(&j)).unwrap_or_default()).collect::<Vec<_>>(),
                "jobs": jobs,
                "jobCount": rc.route().tour.job_count(),
                "total": rc.route().tour.total(),
            })
        })
        .collect();
    let sorted = |mut v: Vec<String>| {
        v.sort();
        v
    };
    let state = json!({
        "required": sorted(s.required.iter().map(jid).collect()),
        "ignored": sorted(s.ignored.iter().map(jid).collect()),
        "unassigned": sorted(s.unassigned.keys().map(jid).collect()),
        "locked": sorted(s.locked.iter().map(jid).collect()),
        "routes": routes,
        "available": sorted(s.registry.resources().available().map(|a| actor_key(&a)).collect()),
        "allActors": sorted(s.registry.resources().all().map(|a| actor_key(&a)).collect()),
        "jobsAmount": s.get_jobs_amount(),
        "totalJobs": problem.jobs.size(),
    });

    // the state written as a pragmatic solution (cached schedules and loads as the writer reports them)
    let solution: Solution = ctx.deep_copy().into();
    let mut buf = std::io::BufWriter::new(Vec::new());
    let written = catch(|| write_pragmatic(problem, &solution, Default::default(), &mut buf).map_err(|e| e.to_string()));
    let sol = match written {
        Ok(Ok(())) => serde_json::from_slice::<Value>(&buf.into_inner().unwrap()).unwrap_or(Value::Null),
        Ok(Err(e)) => json!({"writeError": e}),
        Err(p) => json!({"writePanic": p}),
    };

    // C05: caches vs recomputation from the bare tours
    let d1 = cache_lines(ctx);
    let rec = recompute(ctx);
    let d2 = cache_lines(&rec);
    // judged only when recomputation is a fixpoint on tours and job containers (it may legitimately edit the solution)
    let containers = |c: &InsertionContext| {
        let mut r: Vec<String> = c.solution.required.iter().map(jid).collect();
        let mut i: Vec<String> = c.solution.ignored.iter().map(jid).collect();
        let mut u: Vec<String> = c.solution.unassigned.keys().map(jid).collect();
        r.sort();
        i.sort();
        u.sort();
        (r, i, u)
    };
    let fix = tours_only(ctx) == tours_only(&rec) && containers(ctx) == containers(&rec);
    // multiset difference of the rendered lines (first few of each side)
    let count = |v: &Vec<String>| {
        let mut m = std::collections::BTreeMap::<String, i64>::new();
        for l in v {
            *m.entry(l.clone()).or_default() += 1;
        }
        m
    };
    let (c1, c2) = (count(&d1), count(&d2));
    let mut diff: Vec<String> = vec![];
    for (l, n) in c1.iter() {
        let m = c2.get(l).copied().unwrap_or(0);
        if *n > m && diff.len() < 4 {
            diff.push(format!("cached[{}x] {}", n - m, l));
        }
    }
    for (l, n) in c2.iter() {
        let m = c1.get(l).copied().unwrap_or(0);
        if *n > m && diff.len() < 8 {
            diff.push(format!("recomputed[{}x] {}", n - m, l));
        }
    }
    if std::env::var("VH_DUMP_CACHE").is_ok() && d1 != d2 {
        eprintln!("D1:\n{}\nD2:\n{}\n", d1.join("\n"), d2.join("\n"));
    }
    let fit_a: Vec<Float> = ctx.fitness().collect();
    let fit_b: Vec<Float> = rec.fitness().collect();
    let order_equal = ctx.problem.goal.total_order(ctx, &rec) == std::cmp::Ordering::Equal;

    json!({
        "state": state, "solution": sol,
        "cache": {"d1": hash_str(&d1.join("\n")), "d2": hash_str(&d2.join("\n")), "fix": fix, "diff": diff},
        "fitEqual": fit_a.iter().map(|f| f.to_bits()).collect::<Vec<_>>() == fit_b.iter().map(|f| f.to_bits()).collect::<Vec<_>>(),
        "orderEqual": order_equal,
    })
}

// ---- hook H2: the context right after every single insertion (C05 "after every single insertion during construction") ----
#[derive(Default, Clone)]
struct InsStats {
    n: usize,
    route_stale: usize,
    scalar_stale: usize,
    sol_stale: usize,
    skipped: usize,
    example: String,
}

thread_local! {
    static INS: std::cell::RefCell<Option<InsStats>> = const { std::cell::RefCell::new(None) };
}

/// Runs `f` with the insertion observer collecting on this thread (insertions made on other threads are not observed).
fn watch_insertions<T>(f: impl FnOnce() -> T) -> (T, InsStats) {
    INS.with(|c| *c.borrow_mut() = Some(InsStats::default()));
    let r = f();
    let st = INS.with(|c| c.borrow_mut().take()).unwrap_or_default();
    (r, st)
}

fn containers_of(c: &InsertionContext) -> (Vec<String>, Vec<String>, Vec<String>) {
    let mut r: Vec<String> = c.solution.required.iter().map(jid).collect();
    let mut i: Vec<String> = c.solution.ignored.iter().map(jid).collect();
    let mut u: Vec<String> = c.solution.unassigned.keys().map(jid).collect();
    r.sort();
    i.sort();
    u.sort();
    (r, i, u)
}

fn after_insertion(ctx: &InsertionContext) {
    let collecting = INS.with(|c| c.borrow().is_some());
    if !collecting {
        return;
    }
    let checked = catch(|| {
        let d1 = cache_lines(ctx);
        let rec = recompute(ctx);
        let d2 = cache_lines(&rec);
        // judged only when the recomputation does not edit tours or job containers (mid-construction it may, e.g. conditional jobs)
        let fix = tours_only(ctx) == tours_only(&rec) && containers_of(ctx) == containers_of(&rec);
        (d1, d2, fix)
    });
    INS.with(|c| {
        let mut guard = c.borrow_mut();
        let Some(st) = guard.as_mut() else { return };
        st.n += 1;
        match checked {
            Ok((d1, d2, true)) => {
                let only = |a: &Vec<String>, b: &Vec<String>| -> Vec<String> { a.iter().filter(|l| !b.contains(l)).cloned().collect() };
                let (x, y) = (only(&d1, &d2), only(&d2, &d1));
                // route level: scalar values (counters, sets, sums kept per tour) apart from the vectors feasibility is decided on
                // (activity schedules, latest arrivals, waiting, load profiles, reload intervals)
                let is_scalar = |l: &&String| [" state f:", " state u:", " state s:", " state hs:"].iter().any(|p| l.contains(p));
                let route_all: Vec<&String> = x.iter().chain(y.iter()).filter(|l| !l.starts_with("solution state")).collect();
                let route_diff: Vec<&String> = route_all.iter().filter(|l| !is_scalar(l)).cloned().collect();
                let scalar_diff: Vec<&String> = route_all.iter().filter(|l| is_scalar(l)).cloned().collect();
                let sol_diff: Vec<&String> = x.iter().chain(y.iter()).filter(|l| l.starts_with("solution state")).collect();
                if !route_diff.is_empty() {
                    st.route_stale += 1;
                }
                if !scalar_diff.is_empty() {
                    st.scalar_stale += 1;
                }
                if !sol_diff.is_empty() {
                    st.sol_stale += 1;
                }
                if (st.example.is_empty() || (!route_diff.is_empty() && !st.example.starts_with("VECTOR"))) && (!route_diff.is_empty() || !scalar_diff.is_empty() || !sol_diff.is_empty()) {
                    st.example = format!("{}insertion #{}: cached {:?} recomputed {:?}", if route_diff.is_empty() { "" } else { "VECTOR " }, st.n, x.iter().take(3).collect::<Vec<_>>(), y.iter().take(3).collect::<Vec<_>>());
                }
            }
            _ => st.skipped += 1,
        }
    });
}

fn ins_json(st: &InsStats) -> Value {
    json!({"n": st.n, "routeStale": st.route_stale, "scalarStale": st.scalar_stale, "solStale": st.sol_stale, "skipped": st.skipped, "example": st.example})
}

struct Toolbox {
    ruins: Vec<(&'static str, Arc<dyn Ruin>)>,
    recreates: Vec<(&'static str, Arc<dyn Recreate>)>,
    locals: Vec<(&'static str, Arc<dyn LocalOperator>)>,
    searches: Vec<(&'static str, TargetSearchOperator)>,
}

fn toolbox(problem: Arc<Problem>, env: Arc<Environment>) -> Toolbox {
    let random = env.random.clone();
    let limits = RemovalLimits::new(problem.as_ref());
    let ruins: Vec<(&'static str, Arc<dyn Ruin>)> = vec![
        ("adjusted_string", Arc::new(AdjustedStringRemoval::new_with_defaults(limits.clone()))),
        ("neighbour", Arc::new(NeighbourRemoval::new(limits.clone()))),
        ("worst_job", Arc::new(WorstJobRemoval::new(4, limits.clone()))),
        ("random_job", Arc::new(RandomJobRemoval::new(limits.clone()))),
        ("random_route", Arc::new(RandomRouteRemoval::new(limits.clone()))),
        ("close_route", Arc::new(CloseRouteRemoval::new(limits.clone()))),
        ("worst_route", Arc::new(WorstRouteRemoval::new(limits.clone()))),
        ("cluster", Arc::new(ClusterRemoval::new_with_defaults(problem.clone()).unwrap())),
    ];
    let recreates: Vec<(&'static str, Arc<dyn Recreate>)> = vec![
        ("cheapest", Arc::new(RecreateWithCheapest::new(random.clone()))),
        ("skip_best", Arc::new(RecreateWithSkipBest::new(1, 2, random.clone()))),
        ("regret", Arc::new(RecreateWithRegret::new(1, 3, random.clone()))),
        ("perturbation", Arc::new(RecreateWithPerturbation::new_with_defaults(random.clone()))),
        ("gaps", Arc::new(RecreateWithGaps::new(2, 20, random.clone()))),
        ("blinks", Arc::new(RecreateWithBlinks::new_with_defaults(random.clone()))),
        ("farthest", Arc::new(RecreateWithFarthest::new(random.clone()))),
        ("nearest", Arc::new(RecreateWithNearestNeighbor::new(random.clone()))),
        ("slice", Arc::new(RecreateWithSlice::new(random.clone()))),
        (
            "skip_random",
            Arc::new(RecreateWithSkipRandom::default_explorative_phased(
                Arc::new(RecreateWithCheapest::new(random.clone())),
                random.clone(),
            )),
        ),
    ];
    let locals: Vec<(&'static str, Arc<dyn LocalOperator>)> = vec![
        ("inter_route_best", Arc::new(ExchangeInterRouteBest::default())),
        ("inter_route_random", Arc::new(ExchangeInterRouteRandom::default())),
        ("intra_route_random", Arc::new(ExchangeIntraRouteRandom::default())),
        ("sequence", Arc::new(ExchangeSequence::default())),
        ("swap_star", Arc::new(ExchangeSwapStar::new(random.clone(), 200))),
        ("reschedule_departure", Arc::new(RescheduleDeparture::default())),
    ];
    let inner = create_default_heuristic_operator(problem.clone(), env.clone());
    let searches: Vec<(&'static str, TargetSearchOperator)> = vec![
        ("decompose", Arc::new(DecomposeSearch::new(inner.clone(), (2, 4), 2, 200))),
        ("redistribute", Arc::new(RedistributeSearch::new(Arc::new(RecreateWithCheapest::new(random.clone()))))),
        (
            "infeasible",
            Arc::new(InfeasibleSearch::new(
                inner.clone(),
                Arc::new(RecreateWithCheapest::new(random.clone())),
                2,
                (0.05, 0.2),
                (0.33, 0.75),
            )),
        ),
        ("lkh_strict", Arc::new(LKHSearch::new(LKHSearchMode::ImprovementOnly))),
        ("lkh_diverse", Arc::new(LKHSearch::new(LKHSearchMode::Diverse))),
        ("default_composite", inner.clone()),
    ];
    Toolbox { ruins, recreates, locals, searches }
}

fn run_case(case: &Value, out: &mut NdjsonWriter) {
    let id = case["id"].as_str().unwrap_or("").to_string();
    let steps = case["steps"].as_u64().unwrap_or(30) as usize;
    let mut rnd = Sm64(case["seed"].as_u64().unwrap_or(1));
    let threads = case["threads"].as_u64().unwrap_or(2) as usize;
    let only: Option<Vec<String>> =
        case["only"].as_array().map(|a| a.iter().filter_map(|v| v.as_str().map(|s| s.to_string())).collect());
    let problem_text = serde_json::to_string(&case["problem"]).unwrap();
    let matrices: Vec<String> =
        case["matrices"].as_array().map(|ms| ms.iter().map(|m| serde_json::to_string(m).unwrap()).collect()).unwrap_or_default();
    let problem = match catch(|| (problem_text, matrices).read_pragmatic()) {
        Ok(Ok(p)) => Arc::new(p),
        Ok(Err(e)) => {
            out.write(&json!({"case": id, "step": -1, "op": "read", "invalid": e.errors.iter().map(|e| e.code.clone()).collect::<Vec<_>>()}));
            return;
        }
        Err(p) => {
            out.write(&json!({"case": id, "step": -1, "op": "read", "panic": p}));
            return;
        }
    };
    {
        let mut universe: Vec<String> = problem.jobs.all().iter().map(jid).collect();
        universe.sort();
        out.write(&json!({"case": id, "step": -1, "op": "read", "universe": universe}));
    }
    let env = Arc::new(Environment {
        logger: Arc::new(|_| {}),
        parallelism: Parallelism::new(1, threads.max(1)),
        ..Environment::default()
    });
    let population = Box::new(GreedyPopulation::new(problem.goal.clone(), 1, None));
    let mut rctx = RefinementContext::new(problem.clone(), population, TelemetryMode::None, env.clone());
    let tb = toolbox(problem.clone(), env.clone());

    let pending_ins: std::cell::RefCell<InsStats> = Default::default();
    let emit = |out: &mut NdjsonWriter, step: i64, op: &str, kind: &str, main: bool, ctx: &InsertionContext, pb: &str, pa: &str| {
        let mut v = match catch(|| observe(problem.as_ref(), ctx)) {
            Ok(v) => v,
            Err(p) => json!({"observePanic": p}),
        };
        // insertions observed while this state was built (construction and recreate side branches only)
        v["ins"] = ins_json(&pending_ins.replace(InsStats::default()));
        v["case"] = json!(id);
        v["step"] = json!(step);
        v["op"] = json!(op);
        v["kind"] = json!(kind);
        v["main"] = json!(main);
        v["parentBefore"] = json!(pb);
        v["parentAfter"] = json!(pa);
        out.write(&v);
    };

    // s0: construction by a random recreate from the empty context
    let (cn, c0) = &tb.recreates[rnd.below(tb.recreates.len())];
    let start = InsertionContext::new(problem.clone(), env.clone());
    let mut cur = match catch(|| watch_insertions(|| RuinAndRecreate::new(Arc::new(CompositeRuin::new(vec![])), c0.clone()).search(&rctx, &start))) {
        Ok((c, st)) => {
            pending_ins.replace(st);
            c
        }
        Err(p) => {
            out.write(&json!({"case": id, "step": 0, "op": format!("init:{cn}"), "panic": p}));
            return;
        }
    };
    emit(out, 0, &format!("init:{cn}"), "init", true, &cur, "", "");
    rctx.add_solution(cur.deep_copy());

    for step in 1..=steps as i64 {
        let kind = if let Some(only) = &only { only[rnd.below(only.len())].clone() } else { ["rr", "rr", "local", "search"][rnd.below(4)].to_string() };
        let before = full_digest(&cur);
        match kind.as_str() {
            "rr" => {
                // the solver only ever runs ruins inside a CompositeRuin (which restores the context afterwards)
                let (rn1, r1) = &tb.ruins[rnd.below(tb.ruins.len())];
                let (rn, ruin): (String, Arc<dyn Ruin>) = if rnd.below(3) == 0 {
                    let (rn2, r2) = &tb.ruins[rnd.below(tb.ruins.len())];
                    (format!("{rn1}&{rn2}"), Arc::new(CompositeRuin::new(vec![(r1.clone(), 1.), (r2.clone(), 1.)])))
                } else {
                    (rn1.to_string(), Arc::new(CompositeRuin::new(vec![(r1.clone(), 1.)])))
                };
                let (rn, ruin) = (&rn, &ruin);
                let (cn, rec) = &tb.recreates[rnd.below(tb.recreates.len())];
                // side branch: observe the intermediate states of the two halves
                let side = catch(|| {
                    let a = ruin.run(&rctx, cur.deep_copy());
                    let a_copy = a.deep_copy();
                    let (b, st) = watch_insertions(|| rec.run(&rctx, a));
                    (a_copy, b, st)
                });
                let after = full_digest(&cur);
                match side {
                    Ok((a, b, st)) => {
                        emit(out, step, &format!("ruin:{rn}"), "ruin", false, &a, &before, &after);
                        pending_ins.replace(st);
                        emit(out, step, &format!("recreate:{cn}"), "recreate", false, &b, &before, &after);
                    }
                    Err(p) => out.write(&json!({"case": id, "step": step, "op": format!("ruin:{rn}+recreate:{cn}"), "panic": p})),
                }
                // one step in four: the recreate half runs under an execution quota that is already reached (a termination moment
                // between ruin and recreate): nothing is put back, the ruined state is finalised and handed over
                let under_quota = rnd.below(4) == 0;
                let name = if under_quota { format!("rr:{rn}+{cn}|quota") } else { format!("rr:{rn}+{cn}") };
                let run_rr = || {
                    if under_quota {
                        let mut a = ruin.run(&rctx, cur.deep_copy());
                        let normal = a.environment.clone();
                        a.environment = Arc::new(Environment { quota: Some(Arc::new(ReachedQuota)), ..normal.as_ref().clone() });
                        let mut b = rec.run(&rctx, a);
                        b.environment = normal;
                        b
                    } else {
                        RuinAndRecreate::new(ruin.clone(), rec.clone()).search(&rctx, &cur)
                    }
                };
                match catch(run_rr) {
                    Ok(next) => {
                        let after = full_digest(&cur);
                        emit(out, step, &name, "rr", true, &next, &before, &after);
                        cur = next;
                    }
                    Err(p) => out.write(&json!({"case": id, "step": step, "op": name, "panic": p})),
                }
            }
            "local" => {
                let (n, op) = &tb.locals[rnd.below(tb.locals.len())];
                let name = format!("local:{n}");
                match catch(|| op.explore(&rctx, &cur)) {
                    Ok(Some(next)) => {
                        let after = full_digest(&cur);
                        emit(out, step, &name, "local", true, &next, &before, &after);
                        cur = next;
                    }
                    Ok(None) => {
                        let after = full_digest(&cur);
                        out.write(&json!({"case": id, "step": step, "op": name, "kind": "local", "none": true, "parentBefore": before, "parentAfter": after}));
                    }
                    Err(p) => out.write(&json!({"case": id, "step": step, "op": name, "panic": p})),
                }
            }
            _ => {
                let (n, op) = &tb.searches[rnd.below(tb.searches.len())];
                let name = format!("search:{n}");
                match catch(|| op.search(&rctx, &cur)) {
                    Ok(next) => {
                        let after = full_digest(&cur);
                        // LKH search is observed as a side branch: it is known to leave conditional jobs in zero or two
                        // places (known finding), continuing from its output would only test corrupted histories
                        let main = !n.starts_with("lkh") || case["lkhMain"].as_bool().unwrap_or(false);
                        emit(out, step, &name, "search", main, &next, &before, &after);
                        if main {
                            cur = next;
                        }
                    }
                    Err(p) => out.write(&json!({"case": id, "step": step, "op": name, "panic": p})),
                }
            }
        }
        if step % 10 == 0 {
            rctx.add_solution(cur.deep_copy());
        }
    }
}

fn main() {
    quiet_panics();
    verif_insertion::set_observer(Some(Arc::new(|ctx: &InsertionContext, _route_index: usize| after_insertion(ctx))));
    let cases = read_ndjson(&arg_req("--in"));
    let out_path = arg_req("--out");
    let jobs: usize = arg_or("--jobs", "4").parse().unwrap();
    let next = std::sync::atomic::AtomicUsize::new(0);
    let writers: Vec<_> = (0..jobs).map(|i| std::sync::Mutex::new(NdjsonWriter::create(&format!("{out_path}.{i}")))).collect();
    std::thread::scope(|s| {
        for w in writers.iter() {
            let cases = &cases;
            let next = &next;
            s.spawn(move || loop {
                let i = next.fetch_add(1, std::sync::atomic::Ordering::SeqCst);
                if i >= cases.len() {
                    break;
                }
                run_case(&cases[i], &mut w.lock().unwrap());
            });
        }
    });
    // concatenate shards (each history is contiguous inside its shard)
    let mut all = NdjsonWriter::create(&out_path);
    for (i, w) in writers.into_iter().enumerate() {
        w.into_inner().unwrap().finish();
        let p = format!("{out_path}.{i}");
        for v in read_ndjson(&p) {
            all.write(&v);
        }
        let _ = std::fs::remove_file(&p);
    }
    all.finish();
}
