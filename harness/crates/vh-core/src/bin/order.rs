//! C09 replay: pairs enumerated by TLC (spec/GenOrder.tla) are replayed on InsertionCost (cmp, +, -) and on goals built
//! with GoalBuilder::add_single / add_multi over objectives that return a prescribed fitness per solution.
//! --cost cases --goal cases --out results ({i, kind, cmp, sum?, diff?, back?, ab?, ba?})

use serde_json::{json, Value};
use std::cmp::Ordering;
use std::sync::Arc;
use vh_common::*;
use vrp_core::construction::heuristics::*;
use vrp_core::models::problem::*;
use vrp_core::models::*;
use vrp_core::prelude::*;
use vrp_core::rosomaxa::evolution::objectives::dominance_order;
use vrp_core::rosomaxa::prelude::HeuristicObjective;

/// the numbers of a case are integers times a unit: 1, or a unit so small that all of them lie within f64::EPSILON of each other
/// (the order laws do not depend on the unit; the small unit is a power of two, so sums and differences of multiples are exact)
fn unit() -> f64 {
    static UNIT: std::sync::OnceLock<f64> = std::sync::OnceLock::new();
    *UNIT.get_or_init(|| std::env::var("VH_ORDER_UNIT").ok().and_then(|u| u.parse().ok()).unwrap_or(1.))
}

fn num(v: &Value) -> f64 {
    match v["k"].as_str().unwrap() {
        "pinf" => f64::INFINITY,
        "ninf" => f64::NEG_INFINITY,
        "pmax" => f64::MAX,
        _ => {
            let x = v["v"].as_i64().unwrap() as f64;
            if x == 0. && v["nz"].as_bool().unwrap() { -0.0 } else { x * unit() }
        }
    }
}

fn enc(x: f64) -> Value {
    if x == f64::INFINITY {
        json!({"v": 0, "nz": false, "k": "pinf"})
    } else if x == f64::MAX {
        json!({"v": 0, "nz": false, "k": "pmax"})
    } else if x == f64::NEG_INFINITY {
        json!({"v": 0, "nz": false, "k": "ninf"})
    } else if x.is_nan() || (x / unit()).fract() != 0. {
        json!({"v": 0, "nz": false, "k": format!("other:{x}")})
    } else {
        json!({"v": (x / unit()) as i64, "nz": x == 0. && x.is_sign_negative(), "k": "fin"})
    }
}

fn vec_of(v: &Value) -> Vec<f64> {
    v.as_array().unwrap().iter().map(num).collect()
}

fn ord(o: Ordering) -> i64 {
    match o {
        Ordering::Less => -1,
        Ordering::Equal => 0,
        Ordering::Greater => 1,
    }
}

struct FitKey;
struct FitObjective(usize);
impl FeatureObjective for FitObjective {
    fn fitness(&self, solution: &InsertionContext) -> Cost {
        solution.solution.state.get_value::<FitKey, Vec<f64>>().map(|v| v[self.0]).unwrap_or(0.)
    }
    fn estimate(&self, _: &MoveContext<'_>) -> Cost {
        0.
    }
}

fn build_goal(shape: &[usize]) -> GoalContext {
    let mut builder = GoalBuilder::default();
    let mut features = vec![];
    let mut idx = 0;
    for (l, size) in shape.iter().enumerate() {
        let objectives: Vec<Arc<dyn FeatureObjective>> = (0..*size).map(|k| Arc::new(FitObjective(idx + k)) as Arc<dyn FeatureObjective>).collect();
        for (k, o) in objectives.iter().enumerate() {
            features.push(Feature { name: format!("f{l}_{k}"), constraint: None, objective: Some(o.clone()), state: None });
        }
        builder = if *size == 1 {
            builder.add_single(objectives[0].clone())
        } else {
            // as vrp-pragmatic goal_reader composes a multi-objective layer
            builder.add_multi(
                &objectives,
                |os, a, b| dominance_order(a, b, os.iter().map(|o| |a, b| o.fitness(a).total_cmp(&o.fitness(b)))),
                |os, move_ctx| os.iter().map(|o| o.estimate(move_ctx)).sum(),
            )
        };
        idx += size;
    }
    GoalContextBuilder::with_features(&features).unwrap().set_main_goal(builder.build().unwrap()).build().unwrap()
}

fn main() {
    quiet_panics();
    let mut out = NdjsonWriter::create(&arg_req("--out"));
    for (i, c) in read_ndjson(&arg_req("--cost")).iter().enumerate() {
        let (x, y) = (vec_of(&c["x"]), vec_of(&c["y"]));
        let r = catch(|| {
            let (cx, cy) = (InsertionCost::new(&x), InsertionCost::new(&y));
            let mut v = json!({"cmp": ord(cx.cmp(&cy)), "rev": ord(cy.cmp(&cx)), "eq": cx == cy});
            if c["alg"].as_bool().unwrap() {
                let sum = &cx + &cy;
                let diff = &cx - &cy;
                let back = &sum - &cy;
                v["sum"] = json!(sum.iter().map(enc).collect::<Vec<_>>());
                v["diff"] = json!(diff.iter().map(enc).collect::<Vec<_>>());
                v["back"] = json!(back.iter().map(enc).collect::<Vec<_>>());
            }
            v
        });
        let mut v = r.unwrap_or_else(|p| json!({"panic": p}));
        v["i"] = json!(i + 1);
        v["kind"] = json!("cost");
        out.write(&v);
    }
    // goals
    let transport = Arc::new(SimpleTransportCost::new(vec![0., 1., 1., 0.], vec![0., 1., 1., 0.]).unwrap());
    let mut goals: std::collections::HashMap<Vec<usize>, (GoalContext, Arc<Problem>)> = Default::default();
    let env = Arc::new(Environment::default());
    for (i, c) in read_ndjson(&arg_req("--goal")).iter().enumerate() {
        let shape: Vec<usize> = c["shape"].as_array().unwrap().iter().map(|x| x.as_u64().unwrap() as usize).collect();
        let (goal, problem) = goals.entry(shape.clone()).or_insert_with(|| {
            let goal = build_goal(&shape);
            let vehicle = VehicleBuilder::default().id("v").add_detail(VehicleDetailBuilder::default().set_start_location(0).build().unwrap()).build().unwrap();
            let job = SingleBuilder::default().id("j").location(1).unwrap().build_as_job().unwrap();
            let problem = ProblemBuilder::default()
                .add_jobs(std::iter::once(job))
                .add_vehicles(std::iter::once(vehicle))
                .with_goal(goal.clone())
                .with_transport_cost(transport.clone())
                .build()
                .unwrap();
            (goal, Arc::new(problem))
        });
        let mk = |fit: Vec<f64>| {
            let mut ctx = InsertionContext::new(problem.clone(), env.clone());
            ctx.solution.state.set_value::<FitKey, _>(fit);
            ctx
        };
        let (a, b) = (mk(vec_of(&c["a"])), mk(vec_of(&c["b"])));
        let r = catch(|| {
            let fit: Vec<Value> = goal.fitness(&a).map(enc).collect();
            json!({"cmp": ord(goal.total_order(&a, &b)), "rev": ord(goal.total_order(&b, &a)), "self": ord(goal.total_order(&a, &a)), "fitA": fit})
        });
        let mut v = r.unwrap_or_else(|p| json!({"panic": p}));
        v["i"] = json!(i + 1);
        v["kind"] = json!("goal");
        out.write(&v);
    }
    out.finish();
}
