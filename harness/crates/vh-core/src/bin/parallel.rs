//! C15 replay: cases enumerated by TLC (spec/GenParallel.tla: world, two tours, remaining jobs) are built as insertion contexts
//! with two used routes and one fresh route; for both goals the harness reports the cost of every single (route, job)
//! evaluation and the cost PositionInsertionEvaluator::evaluate_all returns inside thread pools of 1, 2, 3, 4 and 8 threads
//! (several repetitions).  spec/JudgeParallel.tla decides.

#[allow(dead_code)]
#[path = "insertion.rs"]
mod ins;

use ins::*;
use serde_json::{json, Value};
use std::sync::Arc;
use vh_common::*;
use vrp_core::construction::heuristics::*;
use vrp_core::models::common::*;
use vrp_core::models::problem::Job;
use vrp_core::models::solution::{Activity, Place as ActPlace};
use vrp_core::prelude::*;
use vrp_core::rosomaxa::utils::ThreadPool;

fn build(world: &World, tours: &[Value], env: Arc<Environment>) -> InsertionContext {
    let problem = world.problem.clone();
    let mut ictx = InsertionContext::new(problem.clone(), env);
    ictx.solution.required.clear();
    ictx.solution.unassigned.clear();
    ictx.solution.ignored.clear();
    for (k, tour) in tours.iter().enumerate() {
        let acts = tour.as_array().unwrap();
        if acts.is_empty() {
            continue;
        }
        let actor = problem.fleet.actors[k].clone();
        let mut rc = ictx.solution.registry.get_route(&actor).unwrap();
        for a in acts {
            let (j, part, w) = (a["j"].as_u64().unwrap() as usize - 1, a["part"].as_u64().unwrap() as usize, a["w"].as_u64().unwrap() as usize - 1);
            let t = task_spec(world, j, part);
            let tw = &tws(&t["tws"])[w];
            let (location, place_idx) = alt_place(t, w);
            rc.route_mut().tour.insert_last(Activity {
                place: ActPlace { idx: place_idx, location, duration: t["dur"].as_f64().unwrap(), time: tw.clone() },
                schedule: Schedule::new(0., 0.),
                job: Some(single_of(world, j, part)),
                commute: None,
            });
        }
        problem.goal.accept_route_state(&mut rc);
        ictx.solution.registry.use_route(&rc);
        ictx.solution.routes.push(rc);
    }
    problem.goal.accept_solution_state(&mut ictx.solution);
    ictx
}

fn cost_of(r: &InsertionResult) -> Value {
    match r {
        InsertionResult::Success(s) => json!(s.cost.iter().map(|c| (c * 1000.).round() as i64).collect::<Vec<_>>()),
        InsertionResult::Failure(_) => json!([]),
    }
}

fn main() {
    quiet_panics();
    let worlds = read_ndjson(&arg_req("--worlds"));
    let mut out = NdjsonWriter::create(&arg_req("--out"));
    let pools: Vec<(usize, ThreadPool)> = [1usize, 2, 3, 4, 8].iter().map(|&n| (n, ThreadPool::new(n))).collect();
    for case in read_ndjson(&arg_req("--in")) {
        let wi = case["w"].as_u64().unwrap() as usize - 1;
        let tours: Vec<Value> = case["tours"].as_array().unwrap().clone();
        for goal_kind in ["A", "B", "C", "D"] {
            let mut spec = worlds[wi].clone();
            spec["vehicles"] = json!(tours.len() + 1);
            let r = catch(|| {
                let world = build_world(&spec, goal_kind);
                let env = Arc::new(Environment { logger: Arc::new(|_| {}), ..Environment::default() });
                let ictx = build(&world, &tours, env);
                let jobs: Vec<Job> = case["jobs"].as_array().unwrap().iter().map(|j| world.jobs[j.as_u64().unwrap() as usize - 1].clone()).collect();
                let job_refs: Vec<&Job> = jobs.iter().collect();
                // the candidate routes of a recreate step: the used routes and one fresh route
                let fresh: Vec<RouteContext> = ictx.solution.registry.next_route().take(1).map(|rc| rc.deep_copy()).collect();
                let routes: Vec<&RouteContext> = ictx.solution.routes.iter().chain(fresh.iter()).collect();
                let selector = BestResultSelector::default();
                let leg = LegSelection::Exhaustive;
                let goal = &ictx.problem.goal;
                let mut pairs = vec![];
                for rc in routes.iter() {
                    for job in job_refs.iter() {
                        let eval_ctx = EvaluationContext { goal, job, leg_selection: &leg, result_selector: &selector };
                        let res = eval_job_insertion_in_route(&ictx, &eval_ctx, rc, InsertionPosition::Any, InsertionResult::make_failure());
                        pairs.push(cost_of(&res));
                    }
                }
                let evaluator = PositionInsertionEvaluator::default();
                let mut runs = vec![];
                for (n, pool) in pools.iter() {
                    for _ in 0..(if *n == 1 { 1 } else { 3 }) {
                        let res = pool.execute(|| evaluator.evaluate_all(&ictx, job_refs.as_slice(), routes.as_slice(), &leg, &selector));
                        runs.push(json!({"n": n, "cost": cost_of(&res)}));
                    }
                }
                json!({"pairs": pairs, "runs": runs, "routes": routes.len(), "jobs": job_refs.len()})
            });
            let mut rec = match r {
                Ok(mut v) => {
                    v["panic"] = json!("");
                    v
                }
                Err(p) => json!({"panic": p, "pairs": [], "runs": [], "routes": 0, "jobs": 0}),
            };
            rec["c"] = case["c"].clone();
            rec["goal"] = json!(goal_kind);
            out.write(&rec);
        }
    }
    out.finish();
}
