//! C16 replay: matrix sets and queries enumerated by TLC (spec/GenRouting.tla) are given to create_matrix_transport_cost;
//! answers are reported as integers (duration * den * 1000 rounded) so that the judge can compare them with the model's rational.
//! Also: the pragmatic path (named profiles, errorCodes -> unreachable) and the coordinate approximation.

use serde_json::{json, Value};
use std::sync::Arc;
use vh_common::*;
use vrp_core::models::common::Profile;
use vrp_core::models::problem::*;
use vrp_core::models::solution::{Route, Tour};
use vrp_core::prelude::*;

fn flat(t: &Value) -> Vec<f64> {
    t.as_array().unwrap().iter().flat_map(|r| r.as_array().unwrap().iter().map(|x| x.as_f64().unwrap())).collect()
}

fn route_for(profile: Profile) -> Route {
    let mut vehicle = VehicleBuilder::default()
        .id("v")
        .add_detail(VehicleDetailBuilder::default().set_start_location(0).build().unwrap())
        .build()
        .unwrap();
    vehicle.profile = profile;
    let driver = Arc::new(Driver {
        costs: Costs { fixed: 0., per_distance: 0., per_driving_time: 0., per_waiting_time: 0., per_service_time: 0. },
        dimens: Default::default(),
        details: vec![],
    });
    let fleet = Fleet::new(vec![driver], vec![Arc::new(vehicle)], |_| |_| 0);
    let actor = fleet.actors[0].clone();
    let tour = Tour::new(&actor);
    Route { actor, tour }
}

fn main() {
    quiet_panics();
    let mut out = NdjsonWriter::create(&arg_req("--out"));
    for (ci, case) in read_ndjson(&arg_req("--in")).iter().enumerate() {
        let data: Vec<MatrixData> = case["m"]
            .as_array()
            .unwrap()
            .iter()
            .map(|m| {
                let ts = m["ts"].as_i64().unwrap();
                let mut dist = flat(&m["dist"]);
                dist.truncate(m["nDist"].as_u64().unwrap() as usize);
                MatrixData::new(m["index"].as_u64().unwrap() as usize, if ts >= 0 { Some(ts as f64) } else { None }, flat(&m["dur"]), dist)
            })
            .collect();
        let built = catch(|| create_matrix_transport_cost(data));
        let rec = match built {
            Err(p) => json!({"built": "panic", "error": p, "answers": []}),
            Ok(Err(e)) => json!({"built": "err", "error": e.to_string(), "answers": []}),
            Ok(Ok(transport)) => {
                let answers: Vec<Value> = case["queries"]
                    .as_array()
                    .unwrap()
                    .iter()
                    .map(|q| {
                        let profile = Profile::new(q["p"].as_u64().unwrap() as usize, Some(q["scale"].as_f64().unwrap()));
                        let (from, to) = (q["from"].as_u64().unwrap() as usize - 1, q["to"].as_u64().unwrap() as usize - 1);
                        let at = q["at"].as_f64().unwrap();
                        let den = q["dur"]["den"].as_f64().unwrap();
                        let route = route_for(profile.clone());
                        let r = catch(|| {
                            let dur = transport.duration(&route, from, to, TravelTime::Departure(at));
                            let dur_arr = transport.duration(&route, from, to, TravelTime::Arrival(at));
                            let dist = transport.distance(&route, from, to, TravelTime::Departure(at));
                            json!({"durK": (dur * den * 1000.).round() as i64, "durArrK": (dur_arr * den * 1000.).round() as i64, "distK": (dist * 1000.).round() as i64,
                                   "size": transport.size()})
                        });
                        r.unwrap_or_else(|p| json!({"panic": p}))
                    })
                    .collect();
                json!({"built": "ok", "answers": answers})
            }
        };
        let mut rec = rec;
        rec["c"] = json!(ci + 1);
        rec["kind"] = json!("core");
        out.write(&rec);
    }
    // ---- pragmatic layer
    if let Some(path) = arg("--prag") {
        for (ci, case) in read_ndjson(&path).iter().enumerate() {
            let ms = case["m"].as_array().unwrap();
            let n = ms[0]["n"].as_u64().unwrap() as usize;
            let loc = |i: usize| json!({"index": i});
            let vehicle = |id: &str, profile: &str, scale: f64| {
                json!({"typeId": id, "vehicleIds": [id], "profile": {"matrix": profile, "scale": scale},
                       "costs": {"fixed": 0.0, "distance": 1.0, "time": 1.0},
                       "shifts": [{"start": {"earliest": "1970-01-01T00:00:00Z", "location": loc(0)}}], "capacity": [10]})
            };
            let jobs: Vec<Value> = (1..n).map(|i| json!({"id": format!("j{i}"), "deliveries": [{"places": [{"location": loc(i), "duration": 1.0}], "demand": [1]}]})).collect();
            let problem = json!({"plan": {"jobs": jobs},
                "fleet": {"vehicles": [vehicle("car_1", "car", 1.0), vehicle("car_2", "car", 2.0), vehicle("truck_1", "truck", 1.0), vehicle("truck_2", "truck", 2.0)],
                          "profiles": [{"name": "car"}, {"name": "truck"}]}});
            let matrices: Vec<String> = ms
                .iter()
                .map(|m| {
                    let fl = |t: &Value| -> Vec<i64> { t.as_array().unwrap().iter().flat_map(|r| r.as_array().unwrap().iter().map(|x| x.as_i64().unwrap())).collect() };
                    let err = fl(&m["err"]);
                    let mut v = json!({"profile": m["profile"], "travelTimes": fl(&m["dur"]), "distances": fl(&m["dist"])});
                    if err.iter().any(|e| *e > 0) {
                        v["errorCodes"] = json!(err);
                    }
                    v.to_string()
                })
                .collect();
            use vrp_pragmatic::format::problem::PragmaticProblem;
            let rec = match catch(|| (problem.to_string(), matrices).read_pragmatic()) {
                Err(p) => json!({"built": "panic", "error": p, "answers": []}),
                Ok(Err(e)) => json!({"built": "err", "error": e.to_string(), "answers": []}),
                Ok(Ok(core)) => {
                    use vrp_pragmatic::format::VehicleTypeDimension;
                    let answers: Vec<Value> = case["queries"]
                        .as_array()
                        .unwrap()
                        .iter()
                        .map(|q| {
                            let id = format!("{}_{}", q["vehicle"].as_str().unwrap(), q["scale"].as_u64().unwrap());
                            let actor = core.fleet.actors.iter().find(|a| a.vehicle.dimens.get_vehicle_type().is_some_and(|t| *t == id)).unwrap();
                            let route = Route { actor: actor.clone(), tour: Tour::new(actor) };
                            let (from, to) = (q["from"].as_u64().unwrap() as usize - 1, q["to"].as_u64().unwrap() as usize - 1);
                            let dur = core.transport.duration(&route, from, to, TravelTime::Departure(0.));
                            let dist = core.transport.distance(&route, from, to, TravelTime::Departure(0.));
                            json!({"durK": (dur * 1000.).round() as i64, "distK": (dist * 1000.).round() as i64})
                        })
                        .collect();
                    json!({"built": "ok", "answers": answers})
                }
            };
            let mut rec = rec;
            rec["c"] = json!(ci + 1);
            rec["kind"] = json!("prag");
            out.write(&rec);
        }
    }
    // ---- coordinate approximation
    if let Some(path) = arg("--approx") {
        for (ci, case) in read_ndjson(&path).iter().enumerate() {
            let pts = case["points"].as_array().unwrap();
            let loc = |p: &Value| {
                let m = p[2].as_f64().unwrap();
                json!({"lat": 52.0 + p[0].as_f64().unwrap() * 0.013 + m * 0.00002, "lng": 13.0 + p[1].as_f64().unwrap() * 0.017 + m * 0.00003})
            };
            let jobs: Vec<Value> = pts.iter().enumerate().skip(1).map(|(i, p)| json!({"id": format!("j{i}"), "deliveries": [{"places": [{"location": loc(p), "duration": 1.0}], "demand": [1]}]})).collect();
            let problem = json!({"plan": {"jobs": jobs},
                "fleet": {"vehicles": [{"typeId": "v", "vehicleIds": ["v1"], "profile": {"matrix": "car"}, "costs": {"fixed": 0.0, "distance": 1.0, "time": 1.0},
                          "shifts": [{"start": {"earliest": "1970-01-01T00:00:00Z", "location": loc(&pts[0])}}], "capacity": [10]}],
                          "profiles": [{"name": "car"}, {"name": "slow", "speed": 5.0}]}});
            let api = vrp_pragmatic::format::problem::deserialize_problem(std::io::BufReader::new(problem.to_string().as_bytes())).unwrap();
            let ms = vrp_pragmatic::format::problem::create_approx_matrices(&api);
            // the coordinate index: position of every given point, number of distinct locations, a given point for every index
            let coord_index = vrp_pragmatic::format::CoordIndex::new(&api);
            let as_location = |p: &Value| -> vrp_pragmatic::format::Location { serde_json::from_value(loc(p)).unwrap() };
            let index: Vec<i64> = pts.iter().map(|p| coord_index.get_by_loc(&as_location(p)).map(|i| i as i64).unwrap_or(-1)).collect();
            let unique = coord_index.unique().len();
            let back: Vec<usize> = (0..unique)
                .map(|idx| coord_index.get_by_idx(idx).and_then(|l| pts.iter().position(|p| serde_json::to_value(&l).unwrap() == serde_json::to_value(as_location(p)).unwrap())).map(|p| p + 1).unwrap_or(0))
                .collect();
            for m in ms.iter() {
                let n = (m.distances.len() as f64).sqrt().round() as usize;
                let table = |v: &Vec<i64>| (0..n).map(|i| v[i * n..(i + 1) * n].to_vec()).collect::<Vec<_>>();
                out.write(&json!({"c": ci + 1, "kind": "approx", "profile": m.profile, "dist": table(&m.distances), "dur": table(&m.travel_times), "index": index, "unique": unique, "back": back}));
            }
        }
    }
    out.finish();
}
