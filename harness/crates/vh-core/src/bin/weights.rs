//! C19, the vrp side of the map's input: the weight vector an InsertionContext offers to the self-organising population
//! (vrp-core/src/solver/heuristic.rs on_init over construction/heuristics/metrics.rs and models/common/footprint.rs).
//! For every problem: the empty context, a constructed solution, and the constructed solution cut down to its first tour.
//! Output per case: variants [{tours, len, finite: [bool]}].

use serde_json::{json, Value};
use std::sync::Arc;
use vh_common::*;
use vrp_core::construction::heuristics::InsertionContext;
use vrp_core::models::common::Footprint;
use vrp_core::prelude::*;
use vrp_core::rosomaxa::algorithms::gsom::Input;
use vrp_core::rosomaxa::population::RosomaxaSolution;
use vrp_core::solver::search::{Recreate, RecreateWithCheapest};
use vrp_core::rosomaxa::evolution::TelemetryMode;
use vrp_core::rosomaxa::prelude::HeuristicSolution;
use vrp_core::solver::RefinementContext;
use vrp_pragmatic::format::problem::PragmaticProblem;

fn observe(ctx: &mut InsertionContext, footprint: &Footprint) -> Value {
    ctx.on_init(footprint);
    let w = ctx.weights();
    json!({"tours": ctx.solution.routes.len(), "len": w.len(), "finite": w.iter().map(|x| x.is_finite()).collect::<Vec<_>>()})
}

fn main() {
    quiet_panics();
    let mut out = NdjsonWriter::create(&arg_req("--out"));
    for case in read_ndjson(&arg_req("--in")) {
        let problem_text = serde_json::to_string(&case["problem"]).unwrap();
        let matrices: Vec<String> = case["matrices"].as_array().map(|ms| ms.iter().map(|m| serde_json::to_string(m).unwrap()).collect()).unwrap_or_default();
        let r = catch(|| -> Value {
            let problem = match (problem_text.clone(), matrices.clone()).read_pragmatic() {
                Ok(p) => Arc::new(p),
                Err(_) => return json!({"status": "invalid", "variants": []}),
            };
            let env = Arc::new(Environment { logger: Arc::new(|_| {}), ..Environment::default() });
            let footprint = Footprint::new(problem.as_ref());
            let mut variants = vec![];
            let mut empty = InsertionContext::new(problem.clone(), env.clone());
            variants.push(observe(&mut empty, &footprint));
            let population = Box::new(vrp_core::rosomaxa::population::Greedy::new(problem.goal.clone(), 1, None));
            let rctx = RefinementContext::new(problem.clone(), population, TelemetryMode::None, env.clone());
            let mut built = RecreateWithCheapest::new(env.random.clone()).run(&rctx, InsertionContext::new(problem.clone(), env.clone()));
            variants.push(observe(&mut built, &footprint));
            if built.solution.routes.len() > 1 {
                let mut one = built.deep_copy();
                one.solution.routes.truncate(1);
                variants.push(observe(&mut one, &footprint));
            }
            json!({"status": "ok", "variants": variants})
        });
        let mut v = match r {
            Ok(v) => v,
            Err(p) => json!({"status": "panic", "error": p, "variants": []}),
        };
        v["id"] = case["id"].clone();
        out.write(&v);
    }
    out.finish();
}
