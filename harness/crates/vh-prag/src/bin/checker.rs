//! C12 driver: hands (problem, matrices, solution) triples to the bundled solution checker.
//! --in cases.ndjson {id, problem, matrices, solution}  --out results.ndjson {id, verdict: ok|err|panic|invalid, errors}

use serde_json::{json, Value};
use std::io::BufReader;
use std::sync::atomic::{AtomicUsize, Ordering};
use std::sync::Mutex;
use vh_common::*;
use vrp_pragmatic::format::problem::*;
use vrp_pragmatic::format::solution::deserialize_solution;

fn check(case: &Value) -> Value {
    let problem_text = serde_json::to_string(&case["problem"]).unwrap();
    let solution_text = serde_json::to_string(&case["solution"]).unwrap();
    let matrices_text: Vec<String> = case["matrices"].as_array().map(|ms| ms.iter().map(|m| serde_json::to_string(m).unwrap()).collect()).unwrap_or_default();
    let r = catch(|| -> Result<Value, Value> {
        let problem = deserialize_problem(BufReader::new(problem_text.as_bytes())).map_err(|e| json!({"verdict": "invalid", "errors": [e.to_string()]}))?;
        let matrices = matrices_text
            .iter()
            .map(|m| deserialize_matrix(BufReader::new(m.as_bytes())))
            .collect::<Result<Vec<_>, _>>()
            .map_err(|e| json!({"verdict": "invalid", "errors": [e.to_string()]}))?;
        let core = (problem.clone(), matrices.clone()).read_pragmatic().map_err(|e| json!({"verdict": "invalid", "errors": [e.to_string()]}))?;
        let solution = deserialize_solution(BufReader::new(solution_text.as_bytes())).map_err(|e| json!({"verdict": "undeserializable", "errors": [e.to_string()]}))?;
        // the documents are readable: now the bundled checker as the command line runs it (vrp-cli extensions/check)
        let _ = (core, solution);
        let matrix_readers = matrices_text.iter().map(|m| BufReader::new(m.as_bytes())).collect::<Vec<_>>();
        match vrp_cli::extensions::check::check_pragmatic_solution(BufReader::new(problem_text.as_bytes()), BufReader::new(solution_text.as_bytes()), Some(matrix_readers)) {
            Ok(()) => Ok(json!({"verdict": "ok", "errors": []})),
            Err(e) => Ok(json!({"verdict": "err", "errors": e.iter().map(|e| e.to_string()).collect::<Vec<_>>()})),
        }
    });
    let mut v = match r {
        Ok(Ok(v)) | Ok(Err(v)) => v,
        Err(p) => json!({"verdict": "panic", "errors": [p]}),
    };
    v["id"] = case["id"].clone();
    v
}

fn main() {
    quiet_panics();
    let cases = read_ndjson(&arg_req("--in"));
    let out = Mutex::new(NdjsonWriter::create(&arg_req("--out")));
    let jobs: usize = arg_or("--jobs", "8").parse().unwrap();
    let next = AtomicUsize::new(0);
    std::thread::scope(|s| {
        for _ in 0..jobs {
            s.spawn(|| loop {
                let i = next.fetch_add(1, Ordering::SeqCst);
                if i >= cases.len() {
                    break;
                }
                let r = check(&cases[i]);
                out.lock().unwrap().write(&r);
            });
        }
    });
    out.into_inner().unwrap().finish();
}
