//! C07 driver: interrupts the solver at every poll of the computation quota / termination criterion.
//!
//! Input (--in): ndjson cases {id, problem, matrices, maxGenerations, threads, kmax, stride}
//! Output (--out): one line per run:
//!   {id, mode: free|quota|term|realtime, k, polls, termChecks, events: "t0 q0 q0 ...", status, solution?, generations?, error?}
//! The quota is a public trait (Environment.quota); the termination criterion is a public field of EvolutionConfig and is
//! wrapped, so that "the time limit is hit at the j-th check" is driven exactly.  Events are logged in call order.

use serde_json::{json, Value};
use std::sync::atomic::{AtomicUsize, Ordering};
use std::sync::{Arc, Mutex};
use vh_common::*;
use vrp_core::construction::heuristics::InsertionContext;
use vrp_core::models::GoalContext;
use vrp_core::prelude::*;
use vrp_core::rosomaxa::evolution::*;
use vrp_core::rosomaxa::prelude::*;
use vrp_core::rosomaxa::termination::Termination;
use vrp_core::rosomaxa::utils::{Parallelism, Quota};
use vrp_core::solver::*;
use vrp_pragmatic::format::problem::PragmaticProblem;
use vrp_pragmatic::format::solution::write_pragmatic;

type Log = Arc<Mutex<Vec<String>>>;

struct CountingQuota {
    polls: AtomicUsize,
    fire_at: usize,
    log: Log,
}

impl Quota for CountingQuota {
    fn is_reached(&self) -> bool {
        let k = self.polls.fetch_add(1, Ordering::SeqCst);
        let b = k >= self.fire_at;
        let mut log = self.log.lock().unwrap();
        if log.len() < 20000 {
            log.push(if b { "q1".to_string() } else { "q0".to_string() });
        }
        b
    }
}

struct WrappedTermination {
    inner: Box<dyn Termination<Context = RefinementContext, Objective = GoalContext>>,
    checks: Arc<AtomicUsize>,
    fire_at: usize,
    log: Log,
}

impl Termination for WrappedTermination {
    type Context = RefinementContext;
    type Objective = GoalContext;

    fn is_termination(&self, heuristic_ctx: &mut Self::Context) -> bool {
        let k = self.checks.fetch_add(1, Ordering::SeqCst);
        let inner = self.inner.is_termination(heuristic_ctx);
        let b = inner || k >= self.fire_at;
        let mut log = self.log.lock().unwrap();
        if log.len() < 20000 {
            log.push(if b { "t1".to_string() } else { "t0".to_string() });
        }
        b
    }

    fn estimate(&self, heuristic_ctx: &Self::Context) -> Float {
        self.inner.estimate(heuristic_ctx)
    }
}

struct Sleeper(u64);
impl HeuristicContextProcessing for Sleeper {
    type Context = RefinementContext;
    type Objective = GoalContext;
    type Solution = InsertionContext;
    fn pre_process(&self, context: Self::Context) -> Self::Context {
        std::thread::sleep(std::time::Duration::from_millis(self.0));
        context
    }
}

struct Run {
    polls: usize,
    checks: usize,
    events: String,
    outcome: Value,
}

fn run(problem: Arc<Problem>, gens: usize, threads: usize, quota_at: usize, term_at: usize, realtime: Option<(usize, u64)>) -> Run {
    let log: Log = Arc::new(Mutex::new(vec![]));
    let quota = Arc::new(CountingQuota { polls: AtomicUsize::new(0), fire_at: quota_at, log: log.clone() });
    let checks = Arc::new(AtomicUsize::new(0));
    let env = Arc::new(Environment {
        quota: Some(quota.clone()),
        logger: Arc::new(|_| {}),
        parallelism: Parallelism::new(1, threads.max(1)),
        ..Environment::default()
    });
    let outcome = catch(|| -> Result<Value, String> {
        let telemetry = TelemetryMode::OnlyMetrics { track_population: 1000 };
        let mut builder = VrpConfigBuilder::new(problem.clone()).set_environment(env).set_telemetry_mode(telemetry).prebuild().map_err(|e| e.to_string())?;
        builder = builder.with_max_generations(Some(gens));
        if let Some((secs, _)) = realtime {
            builder = builder.with_max_time(Some(secs));
        }
        let mut config = builder.build().map_err(|e| e.to_string())?;
        if let Some((_, sleep_ms)) = realtime {
            config.processing.context.push(Box::new(Sleeper(sleep_ms)));
        }
        let inner = std::mem::replace(&mut config.termination, Box::new(vrp_core::rosomaxa::termination::MaxGeneration::new(usize::MAX)));
        config.termination = Box::new(WrappedTermination { inner, checks: checks.clone(), fire_at: term_at, log: log.clone() });
        match Solver::new(problem.clone(), config).solve() {
            Ok(solution) => {
                let generations = solution.telemetry.as_ref().map(|t| t.generations as i64).unwrap_or(-1);
                let mut buf = std::io::BufWriter::new(Vec::new());
                write_pragmatic(problem.as_ref(), &solution, Default::default(), &mut buf).map_err(|e| format!("write: {e}"))?;
                let sol: Value = serde_json::from_slice(&buf.into_inner().unwrap()).map_err(|e| e.to_string())?;
                Ok(json!({"status": "ok", "solution": sol, "generations": generations}))
            }
            Err(e) => Ok(json!({"status": "err", "error": e.to_string()})),
        }
    });
    let outcome = match outcome {
        Ok(Ok(v)) => v,
        Ok(Err(e)) => json!({"status": "toolerr", "error": e}),
        Err(p) => json!({"status": "panic", "error": p}),
    };
    let events = log.lock().unwrap().join(" ");
    Run { polls: quota.polls.load(Ordering::SeqCst), checks: checks.load(Ordering::SeqCst), events, outcome }
}

fn main() {
    quiet_panics();
    let cases = read_ndjson(&arg_req("--in"));
    let out = Mutex::new(NdjsonWriter::create(&arg_req("--out")));
    let jobs: usize = arg_or("--jobs", "4").parse().unwrap();
    let next = AtomicUsize::new(0);
    std::thread::scope(|s| {
        for _ in 0..jobs {
            s.spawn(|| loop {
                let i = next.fetch_add(1, Ordering::SeqCst);
                if i >= cases.len() {
                    break;
                }
                let case = &cases[i];
                let id = case["id"].clone();
                let gens = case["maxGenerations"].as_u64().unwrap_or(3) as usize;
                let threads = case["threads"].as_u64().unwrap_or(1) as usize;
                let kmax = case["kmax"].as_u64().unwrap_or(200) as usize;
                let stride = case["stride"].as_u64().unwrap_or(1).max(1) as usize;
                let problem_text = serde_json::to_string(&case["problem"]).unwrap();
                let matrices: Vec<String> = case["matrices"].as_array().map(|ms| ms.iter().map(|m| serde_json::to_string(m).unwrap()).collect()).unwrap_or_default();
                let problem = match catch(|| (problem_text, matrices).read_pragmatic()) {
                    Ok(Ok(p)) => Arc::new(p),
                    _ => {
                        out.lock().unwrap().write(&json!({"id": id, "mode": "read", "status": "invalid"}));
                        continue;
                    }
                };
                let emit = |mode: &str, k: i64, r: Run| {
                    let mut v = r.outcome;
                    v["id"] = id.clone();
                    v["mode"] = json!(mode);
                    v["k"] = json!(k);
                    v["polls"] = json!(r.polls);
                    v["termChecks"] = json!(r.checks);
                    v["events"] = json!(r.events);
                    v["maxGenerations"] = json!(gens);
                    out.lock().unwrap().write(&v);
                };
                // free run: how many polls / termination checks does an uninterrupted run make?
                let free = run(problem.clone(), gens, threads, usize::MAX, usize::MAX, None);
                let (n_polls, n_checks) = (free.polls, free.checks);
                emit("free", -1, free);
                // quota turns true at its k-th poll and stays true
                let mut k = 0;
                while k <= n_polls.min(kmax) {
                    emit("quota", k as i64, run(problem.clone(), gens, threads, k, usize::MAX, None));
                    k += if k < 40 { 1 } else { stride };
                }
                // the termination criterion (time limit) fires at its j-th check
                for j in 0..=n_checks.min(12) {
                    emit("term", j as i64, run(problem.clone(), gens, threads, usize::MAX, j, None));
                }
                // the real time limit: 1 s, with a pre-processing step that takes longer ("before construction")
                if case["realtime"].as_bool().unwrap_or(false) {
                    emit("realtime", 0, run(problem.clone(), gens, threads, usize::MAX, usize::MAX, Some((1, 1100))));
                }
            });
        }
    });
    out.into_inner().unwrap().finish();
}
