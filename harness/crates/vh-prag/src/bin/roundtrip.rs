//! C11 driver.  Input (--in) ndjson records by kind:
//!  {kind: "doc", what: problem|matrix|solution, doc}            -> t1 = ser(parse(doc)), t2 = ser(parse(t1)); reports whether the
//!                                                                  JSON values of t1 and t2 are equal (numbers as f64, 2 ulp)
//!  {kind: "init", problem, matrices, config}                    -> solve, write (S), read_init_solution, write again (S2)
//!  {kind: "csv", jobs: text, vehicles: text}                    -> read_csv_problem, serialised problem, read_pragmatic outcome
//! Output (--out): one line per record with the same id.

use serde_json::{json, Value};
use std::io::{BufReader, BufWriter};
use std::sync::atomic::{AtomicUsize, Ordering};
use std::sync::{Arc, Mutex};
use vh_common::*;
use vrp_cli::extensions::import::import_problem;
use vrp_cli::extensions::solve::config::{create_builder_from_config, read_config};
use vrp_core::prelude::{Environment, Solution};
use vrp_core::solver::Solver;
use vrp_pragmatic::format::problem::*;
use vrp_pragmatic::format::solution::{deserialize_solution, read_init_solution, serialize_solution, write_pragmatic};

fn ulps(a: f64, b: f64) -> u64 {
    if a == b {
        return 0;
    }
    if a.is_nan() || b.is_nan() || a.signum() != b.signum() {
        return u64::MAX;
    }
    (a.to_bits() as i64 - b.to_bits() as i64).unsigned_abs()
}

/// first path at which two JSON values differ (numbers compared as numbers, up to 2 ulp)
fn diff(a: &Value, b: &Value, path: String) -> Option<String> {
    match (a, b) {
        (Value::Number(x), Value::Number(y)) => {
            if ulps(x.as_f64().unwrap(), y.as_f64().unwrap()) <= 2 {
                None
            } else {
                Some(format!("{path}: {x} vs {y}"))
            }
        }
        (Value::Array(x), Value::Array(y)) => {
            if x.len() != y.len() {
                return Some(format!("{path}: length {} vs {}", x.len(), y.len()));
            }
            x.iter().zip(y.iter()).enumerate().find_map(|(i, (p, q))| diff(p, q, format!("{path}[{i}]")))
        }
        (Value::Object(x), Value::Object(y)) => {
            for k in x.keys().chain(y.keys()) {
                match (x.get(k), y.get(k)) {
                    (Some(p), Some(q)) => {
                        if let Some(d) = diff(p, q, format!("{path}.{k}")) {
                            return Some(d);
                        }
                    }
                    _ => return Some(format!("{path}.{k}: present on one side only")),
                }
            }
            None
        }
        _ => {
            if a == b {
                None
            } else {
                Some(format!("{path}: {a} vs {b}"))
            }
        }
    }
}

/// the document without null members (an absent optional field and an explicit null are the same document)
fn strip_nulls(v: &Value) -> Value {
    match v {
        Value::Object(m) => Value::Object(m.iter().filter(|(_, x)| !x.is_null()).map(|(k, x)| (k.clone(), strip_nulls(x))).collect()),
        Value::Array(a) => Value::Array(a.iter().map(strip_nulls).collect()),
        other => other.clone(),
    }
}

/// members / elements of `a` that `b` lacks or holds with another value (one direction: what `b` adds is not reported)
fn lost(a: &Value, b: &Value, path: String, out: &mut Vec<String>) {
    match (a, b) {
        (Value::Object(x), Value::Object(y)) => {
            for (k, p) in x {
                match y.get(k) {
                    Some(q) => lost(p, q, format!("{path}.{k}"), out),
                    None => out.push(format!("{path}.{k}")),
                }
            }
        }
        (Value::Array(x), Value::Array(y)) => {
            if x.len() != y.len() {
                out.push(format!("{path}: length {} vs {}", x.len(), y.len()));
            } else {
                x.iter().zip(y.iter()).enumerate().for_each(|(i, (p, q))| lost(p, q, format!("{path}[{i}]"), out));
            }
        }
        _ => {
            if diff(a, b, path.clone()).is_some() {
                out.push(path);
            }
        }
    }
}

fn ser_problem(p: &vrp_pragmatic::format::problem::Problem) -> Result<String, String> {
    let mut buf = BufWriter::new(Vec::new());
    serialize_problem(p, &mut buf).map_err(|e| e.to_string())?;
    Ok(String::from_utf8(buf.into_inner().unwrap()).unwrap())
}

fn reser(what: &str, text: &str) -> Result<String, String> {
    match what {
        "problem" => deserialize_problem(BufReader::new(text.as_bytes())).map_err(|e| e.to_string()).and_then(|p| ser_problem(&p)),
        "matrix" => deserialize_matrix(BufReader::new(text.as_bytes())).map_err(|e| e.to_string()).and_then(|m| serde_json::to_string(&m).map_err(|e| e.to_string())),
        _ => deserialize_solution(BufReader::new(text.as_bytes())).map_err(|e| e.to_string()).and_then(|s| {
            let mut buf = BufWriter::new(Vec::new());
            serialize_solution(&s, &mut buf).map_err(|e| e.to_string())?;
            Ok(String::from_utf8(buf.into_inner().unwrap()).unwrap())
        }),
    }
}

fn handle(case: &Value) -> Value {
    let kind = case["kind"].as_str().unwrap();
    let r = catch(|| -> Value {
        match kind {
            "doc" => {
                let what = case["what"].as_str().unwrap();
                let t0 = serde_json::to_string(&case["doc"]).unwrap();
                let t1 = match reser(what, &t0) {
                    Ok(t) => t,
                    Err(e) => return json!({"status": "parse-err", "error": e}),
                };
                let t2 = match reser(what, &t1) {
                    Ok(t) => t,
                    Err(e) => return json!({"status": "reparse-err", "error": e}),
                };
                let (v0, v1, v2): (Value, Value, Value) = (case["doc"].clone(), serde_json::from_str(&t1).unwrap(), serde_json::from_str(&t2).unwrap());
                let d12 = diff(&v1, &v2, String::new());
                // every field of the original document that survives under the same name has the same value after one pass
                let d01 = diff(&strip_nulls(&v0), &strip_nulls(&v1), String::new());
                let mut lost_members = vec![];
                lost(&strip_nulls(&v0), &strip_nulls(&v1), String::new(), &mut lost_members);
                lost_members.truncate(20);
                json!({"status": "ok", "lost": lost_members, "fixpoint": d12.is_none(), "fixpointDiff": d12.unwrap_or_default(), "firstPassSame": d01.is_none(), "firstPassDiff": d01.unwrap_or_default()})
            }
            "init" => {
                let problem_text = serde_json::to_string(&case["problem"]).unwrap();
                let matrices: Option<Vec<String>> = case["matrices"].as_array().map(|ms| ms.iter().map(|m| serde_json::to_string(m).unwrap()).collect());
                let core = match matrices {
                    Some(ms) => (problem_text.clone(), ms).read_pragmatic(),
                    None => problem_text.clone().read_pragmatic(),
                };
                let core = match core {
                    Ok(c) => Arc::new(c),
                    Err(e) => return json!({"status": "invalid", "error": e.to_string()}),
                };
                let config_text = serde_json::to_string(&case["config"]).unwrap();
                let config = match read_config(BufReader::new(config_text.as_bytes())) {
                    Ok(c) => c,
                    Err(e) => return json!({"status": "toolerr", "error": e.to_string()}),
                };
                // a failing or panicking solve is the business of other properties
                let solved = catch(|| create_builder_from_config(core.clone(), vec![], &config).and_then(|b| b.build()).map(|cfg| Solver::new(core.clone(), cfg)).and_then(|s| s.solve()));
                let solution = match solved {
                    Ok(Ok(s)) => s,
                    Ok(Err(e)) => return json!({"status": "solve-err", "error": e.to_string()}),
                    Err(p) => return json!({"status": "solve-err", "error": format!("panic: {p}")}),
                };
                let write = |s: &Solution| -> Result<Vec<u8>, String> {
                    let mut buf = BufWriter::new(Vec::new());
                    write_pragmatic(core.as_ref(), s, Default::default(), &mut buf).map_err(|e| e.to_string())?;
                    Ok(buf.into_inner().unwrap())
                };
                let t1 = match write(&solution) {
                    Ok(t) => t,
                    Err(e) => return json!({"status": "write-err", "error": e}),
                };
                let s1: Value = serde_json::from_slice(&t1).unwrap();
                let environment = Environment::default();
                let reread = match read_init_solution(BufReader::new(t1.as_slice()), core.clone(), environment.random.clone()) {
                    Ok(s) => s,
                    Err(e) => return json!({"status": "init-err", "error": e.to_string(), "written": s1}),
                };
                let t2 = match write(&reread) {
                    Ok(t) => t,
                    Err(e) => return json!({"status": "rewrite-err", "error": e, "written": s1}),
                };
                let s2: Value = serde_json::from_slice(&t2).unwrap();
                json!({"status": "ok", "written": s1, "reread": s2})
            }
            "csv" => {
                let (jobs, vehicles) = (case["jobs"].as_str().unwrap(), case["vehicles"].as_str().unwrap());
                // through the import table of the command line (extensions/import/mod.rs): "csv" with the jobs and the vehicles table
                let problem = match import_problem("csv", Some(vec![BufReader::new(jobs.as_bytes()), BufReader::new(vehicles.as_bytes())])) {
                    Ok(p) => p,
                    Err(e) => return json!({"status": "import-err", "error": e.to_string()}),
                };
                let text = match ser_problem(&problem) {
                    Ok(t) => t,
                    Err(e) => return json!({"status": "ser-err", "error": e}),
                };
                let doc: Value = serde_json::from_str(&text).unwrap();
                let valid = match catch(|| text.clone().read_pragmatic()) {
                    Ok(Ok(_)) => json!({"ok": true, "codes": []}),
                    Ok(Err(e)) => json!({"ok": false, "codes": e.errors.iter().map(|e| e.code.clone()).collect::<Vec<_>>()}),
                    Err(p) => json!({"ok": false, "codes": ["PANIC"], "error": p}),
                };
                json!({"status": "ok", "problem": doc, "valid": valid})
            }
            other => tool_error(&format!("unknown record kind {other}")),
        }
    });
    let mut v = match r {
        Ok(v) => v,
        Err(p) => json!({"status": "panic", "error": p}),
    };
    v["id"] = case["id"].clone();
    v["kind"] = case["kind"].clone();
    v
}

fn main() {
    quiet_panics();
    let cases = read_ndjson(&arg_req("--in"));
    let results: Mutex<Vec<(usize, Value)>> = Mutex::new(vec![]);
    let jobs: usize = arg_or("--jobs", "8").parse().unwrap();
    let next = AtomicUsize::new(0);
    std::thread::scope(|s| {
        for _ in 0..jobs {
            s.spawn(|| loop {
                let i = next.fetch_add(1, Ordering::SeqCst);
                if i >= cases.len() {
                    break;
                }
                let r = handle(&cases[i]);
                results.lock().unwrap().push((i, r));
            });
        }
    });
    let mut results = results.into_inner().unwrap();
    results.sort_by_key(|(i, _)| *i);
    let mut out = NdjsonWriter::create(&arg_req("--out"));
    for (_, r) in results {
        out.write(&r);
    }
    out.finish();
}
