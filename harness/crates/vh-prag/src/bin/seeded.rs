//! C08 corollary: "a solve seeded with a feasible initial solution never returns a worse one".
//! For every case: solve (-> S1, written in pragmatic format), read S1 back with read_init_solution, solve again seeded with it
//! (-> S2), and compare S2 with the seed under the goal of the problem (GoalContext::total_order on insertion contexts built the
//! same way from both solutions: written in pragmatic format and read back).  Output: {id, status: ok | worse | invalid | err | initerr | panic, fitInit, fitFinal, population}

use serde_json::{json, Value};
use std::cmp::Ordering as CmpOrdering;
use std::io::BufReader;
use std::sync::atomic::{AtomicUsize, Ordering};
use std::sync::{Arc, Mutex};
use vh_common::*;
use vrp_cli::extensions::solve::config::{create_builder_from_config, read_config};
use vrp_core::construction::heuristics::InsertionContext;
use vrp_core::prelude::*;
use vrp_core::rosomaxa::prelude::{HeuristicObjective, HeuristicSolution};
use vrp_core::solver::Solver;
use vrp_pragmatic::format::problem::*;
use vrp_pragmatic::format::solution::{read_init_solution, write_pragmatic};

fn run_case(case: &Value) -> Value {
    let problem_text = serde_json::to_string(&case["problem"]).unwrap();
    let matrices: Option<Vec<String>> = case["matrices"].as_array().map(|ms| ms.iter().map(|m| serde_json::to_string(m).unwrap()).collect());
    let mut config = case["config"].clone();
    // the population under test; a few generations are enough
    let sel = 2;
    config["evolution"]["population"] = match case["population"].as_str().unwrap_or("rosomaxa") {
        "greedy" => json!({"type": "greedy", "selectionSize": sel}),
        "elitism" => json!({"type": "elitism", "maxSize": 2, "selectionSize": sel}),
        _ => json!({"type": "rosomaxa", "selectionSize": sel, "maxEliteSize": 2, "maxNodeSize": 2, "spreadFactor": 0.75, "distributionFactor": 0.75, "rebalanceMemory": 100, "explorationRatio": 0.9}),
    };
    config["termination"] = json!({"maxGenerations": 30, "maxTime": 20});
    let config_text = serde_json::to_string(&config).unwrap();
    let result = catch(|| -> Result<Value, Value> {
        let core = match matrices {
            Some(ms) => (problem_text.clone(), ms).read_pragmatic(),
            None => problem_text.clone().read_pragmatic(),
        }
        .map_err(|e| json!({"status": "invalid", "error": e.to_string()}))?;
        let core = Arc::new(core);
        let config = read_config(BufReader::new(config_text.as_bytes())).map_err(|e| json!({"status": "toolerr", "error": format!("config: {e}")}))?;
        let solve = |init: Vec<InsertionContext>| {
            create_builder_from_config(core.clone(), init, &config)
                .and_then(|b| b.build())
                .map(|cfg| Solver::new(core.clone(), cfg))
                .and_then(|s| s.solve())
                .map_err(|e| json!({"status": "err", "error": e.to_string()}))
        };
        let first = solve(vec![])?;
        let mut buf = std::io::BufWriter::new(Vec::new());
        write_pragmatic(core.as_ref(), &first, Default::default(), &mut buf).map_err(|e| json!({"status": "err", "error": format!("write: {e}")}))?;
        let text = buf.into_inner().unwrap();
        let environment = Arc::new(Environment::default());
        let read = |text: &[u8]| {
            read_init_solution(BufReader::new(text), core.clone(), environment.random.clone())
                .map(|s| InsertionContext::new_from_solution(core.clone(), (s, None), environment.clone()))
                .map_err(|e| json!({"status": "initerr", "error": e.to_string()}))
        };
        let first_direct = InsertionContext::new_from_solution(core.clone(), (first, None), environment.clone());
        let seed_ctx = read(&text).map_err(|mut e| {
            e["written"] = serde_json::from_slice(&text).unwrap_or_default();
            e
        })?;
        let seed_copy = seed_ctx.deep_copy();
        let second = solve(vec![seed_ctx])?;
        let mut buf2 = std::io::BufWriter::new(Vec::new());
        write_pragmatic(core.as_ref(), &second, Default::default(), &mut buf2).map_err(|e| json!({"status": "err", "error": format!("write: {e}")}))?;
        let text2 = buf2.into_inner().unwrap();
        let final_read = read(&text2).map_err(|mut e| {
            e["status"] = json!("initerr2");
            e["written"] = serde_json::from_slice(&text).unwrap_or_default();
            e["written2"] = serde_json::from_slice(&text2).unwrap_or_default();
            e
        })?;
        let final_ctx = InsertionContext::new_from_solution(core.clone(), (second, None), environment.clone());
        let fit = |ctx: &InsertionContext| core.goal.fitness(ctx).collect::<Vec<_>>();
        // both sides in the same representation: written and read back (departure times as written)
        let order = core.goal.total_order(&final_read, &seed_copy);
        Ok(json!({"status": if order == CmpOrdering::Greater { "worse" } else { "ok" }, "fitInit": fit(&seed_copy), "fitFinal": fit(&final_read), "fitFirstDirect": fit(&first_direct), "fitFinalDirect": fit(&final_ctx),
                  "unassignedInit": seed_copy.solution.unassigned.len(), "unassignedFinal": final_read.solution.unassigned.len()}))
    });
    let mut out = match result {
        Ok(Ok(v)) | Ok(Err(v)) => v,
        Err(p) => json!({"status": "panic", "error": p}),
    };
    out["id"] = case["id"].clone();
    out["population"] = case["population"].clone();
    out
}

fn main() {
    quiet_panics();
    let cases = read_ndjson(&arg_req("--in"));
    let out = Mutex::new(NdjsonWriter::create(&arg_req("--out")));
    let jobs: usize = arg_or("--jobs", "4").parse().unwrap();
    let next = AtomicUsize::new(0);
    std::thread::scope(|s| {
        for _ in 0..jobs {
            s.spawn(|| loop {
                let i = next.fetch_add(1, Ordering::SeqCst);
                if i >= cases.len() {
                    break;
                }
                let r = run_case(&cases[i]);
                out.lock().unwrap().write(&r);
            });
        }
    });
    out.into_inner().unwrap().finish();
}
