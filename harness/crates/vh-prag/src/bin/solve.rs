//! Batch solve driver (C01, C02, C03, C07-end-to-end, C15-end-to-end).
//!
//! Input  (--in): ndjson, one case per line: {id, problem, matrices:[..]|null, config, init?:solution}
//! Output (--out): ndjson, one line per case: {id, status, solution?, error?, ms}
//!   status = ok | invalid (problem rejected with codes) | err (solver returned Err) | panic
//!
//! Everything goes through the public path a user takes:
//!   deserialize_problem / deserialize_matrix -> read_pragmatic -> vrp_cli config -> Solver -> write_pragmatic

use serde_json::{json, Value};
use std::io::BufReader;
use std::sync::atomic::{AtomicUsize, Ordering};
use std::sync::{Arc, Mutex};
use vh_common::*;
use vrp_cli::extensions::solve::config::{create_builder_from_config, read_config};
use vrp_core::solver::Solver;
use vrp_pragmatic::format::problem::*;
use vrp_pragmatic::format::solution::{read_init_solution, write_pragmatic};

fn solve_case(case: &Value) -> Value {
    let id = case["id"].clone();
    let started = std::time::Instant::now();
    let problem_text = serde_json::to_string(&case["problem"]).unwrap();
    let matrices: Option<Vec<String>> =
        case["matrices"].as_array().map(|ms| ms.iter().map(|m| serde_json::to_string(m).unwrap()).collect());
    let config_text = serde_json::to_string(&case["config"]).unwrap();
    let init_text = if case["init"].is_object() { Some(serde_json::to_string(&case["init"]).unwrap()) } else { None };

    let result = catch(|| -> Result<Value, Value> {
        let core = match matrices {
            Some(ms) => (problem_text.clone(), ms).read_pragmatic(),
            None => problem_text.clone().read_pragmatic(),
        }
        .map_err(|e| {
            json!({"status": "invalid", "codes": e.errors.iter().map(|e| e.code.clone()).collect::<Vec<_>>(), "error": e.to_string()})
        })?;
        let core = Arc::new(core);
        let config = read_config(BufReader::new(config_text.as_bytes()))
            .map_err(|e| json!({"status": "toolerr", "error": format!("config: {e}")}))?;
        let mut init_status = Value::Null;
        let solutions = match &init_text {
            Some(text) => {
                let environment = vrp_core::prelude::Environment::default();
                match read_init_solution(BufReader::new(text.as_bytes()), core.clone(), environment.random.clone()) {
                    Ok(s) => {
                        init_status = json!("read");
                        vec![vrp_core::construction::heuristics::InsertionContext::new_from_solution(
                            core.clone(),
                            (s, None),
                            Arc::new(environment),
                        )]
                    }
                    Err(e) => return Err(json!({"status": "initerr", "error": e.to_string()})),
                }
            }
            None => vec![],
        };
        let solution = create_builder_from_config(core.clone(), solutions, &config)
            .and_then(|b| b.build())
            .map(|cfg| Solver::new(core.clone(), cfg))
            .and_then(|s| s.solve())
            .map_err(|e| json!({"status": "err", "error": e.to_string()}))?;
        let mut buf = std::io::BufWriter::new(Vec::new());
        write_pragmatic(core.as_ref(), &solution, Default::default(), &mut buf)
            .map_err(|e| json!({"status": "err", "error": format!("write: {e}")}))?;
        let text = String::from_utf8(buf.into_inner().unwrap()).unwrap();
        let sol: Value = serde_json::from_str(&text).map_err(|e| json!({"status": "err", "error": format!("reparse: {e}")}))?;
        let mut out = json!({"status": "ok", "solution": sol, "init": init_status});
        if case["wantApprox"].as_bool().unwrap_or(false) {
            // coordinate problems: the routing data the reader derived (location list of the coordinate index, approximated matrices)
            let api = deserialize_problem(BufReader::new(problem_text.as_bytes())).map_err(|e| json!({"status": "toolerr", "error": e.to_string()}))?;
            let locations = vrp_pragmatic::format::CoordIndex::new(&api).unique();
            let matrices: Vec<Value> = create_approx_matrices(&api)
                .iter()
                .map(|m| json!({"profile": m.profile, "travelTimes": m.travel_times, "distances": m.distances}))
                .collect();
            out["approx"] = json!({"locations": locations, "matrices": matrices});
        }
        Ok(out)
    });

    let mut out = match result {
        Ok(Ok(v)) | Ok(Err(v)) => v,
        Err(p) => json!({"status": "panic", "error": p}),
    };
    out["id"] = id;
    out["ms"] = json!(started.elapsed().as_millis() as u64);
    out
}

fn main() {
    quiet_panics();
    let cases = read_ndjson(&arg_req("--in"));
    let out = Mutex::new(NdjsonWriter::create(&arg_req("--out")));
    let jobs: usize = arg_or("--jobs", "4").parse().unwrap();
    let next = AtomicUsize::new(0);
    std::thread::scope(|s| {
        for _ in 0..jobs {
            s.spawn(|| loop {
                let i = next.fetch_add(1, Ordering::SeqCst);
                if i >= cases.len() {
                    break;
                }
                let r = solve_case(&cases[i]);
                out.lock().unwrap().write(&r);
            });
        }
    });
    out.into_inner().unwrap().finish();
}
