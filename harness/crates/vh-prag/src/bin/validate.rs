//! C10 driver: reads generated problem (+ matrix) documents through the public path (deserialize + read_pragmatic) and reports
//! the outcome: ok | err with the list of error codes | panic.
//! Input (--in): ndjson {id, problem, matrices?: [..]} ; output (--out): {id, status, codes: [..], error?}

use serde_json::{json, Value};
use std::io::BufReader;
use vh_common::*;
use vrp_pragmatic::format::problem::{deserialize_matrix, deserialize_problem, PragmaticProblem};

fn codes(e: &vrp_pragmatic::format::MultiFormatError) -> Value {
    let mut c: Vec<String> = e.errors.iter().map(|e| e.code.clone()).collect();
    c.sort();
    json!({"status": "err", "codes": c, "error": e.errors.iter().map(|e| format!("{}: {} ({})", e.code, e.cause, e.action)).collect::<Vec<_>>().join(" | ")})
}

fn main() {
    quiet_panics();
    let mut out = NdjsonWriter::create(&arg_req("--out"));
    for case in read_ndjson(&arg_req("--in")) {
        let problem_text = serde_json::to_string(&case["problem"]).unwrap();
        let matrices: Option<Vec<String>> = case["matrices"].as_array().map(|ms| ms.iter().map(|m| serde_json::to_string(m).unwrap()).collect());
        let r = catch(|| -> Value {
            let problem = match deserialize_problem(BufReader::new(problem_text.as_bytes())) {
                Ok(p) => p,
                Err(e) => return json!({"status": "undeserializable", "codes": codes(&e)["codes"], "error": e.to_string()}),
            };
            let res = match &matrices {
                Some(ms) => {
                    let mut parsed = vec![];
                    for m in ms {
                        match deserialize_matrix(BufReader::new(m.as_bytes())) {
                            Ok(m) => parsed.push(m),
                            Err(e) => return json!({"status": "undeserializable", "codes": codes(&e)["codes"], "error": e.to_string()}),
                        }
                    }
                    (problem, parsed).read_pragmatic()
                }
                None => problem.read_pragmatic(),
            };
            match res {
                Ok(_) => json!({"status": "ok", "codes": []}),
                Err(e) => codes(&e),
            }
        });
        let mut v = match r {
            Ok(v) => v,
            Err(p) => json!({"status": "panic", "codes": [], "error": p}),
        };
        v["id"] = case["id"].clone();
        out.write(&v);
    }
    out.finish();
}
