//! C13 replay: instance texts printed from TLC-generated abstract instances are read with the public scientific readers; the
//! harness reports what the core problem holds (fleet, capacities, depots, jobs with places / windows / service / demand, the
//! location table and the distance matrix in 1/100), the routes of a short solve, and - for Solomon and TSPLIB - the routes read
//! back from the text solution.  spec/JudgeSci.tla decides.

use serde_json::{json, Value};
use std::io::{BufReader, BufWriter};
use std::sync::Arc;
use vh_common::*;
use vrp_core::construction::features::{JobDemandDimension, VehicleCapacityDimension};
use vrp_core::models::common::*;
use vrp_core::models::problem::*;
use vrp_core::prelude::*;
use vrp_scientific::common::{read_init_solution, CoordIndexExtraProperty};
use vrp_scientific::lilim::LilimProblem;
use vrp_scientific::solomon::{SolomonProblem, SolomonSolution};
use vrp_scientific::tsplib::{TsplibProblem, TsplibSolution};

fn clamp(t: f64) -> i64 {
    if t > 1e6 {
        1_000_000
    } else {
        t.round() as i64
    }
}

fn task_json(single: &Single, locs: &[(i32, i32)]) -> Value {
    let place = &single.places[0];
    let (x, y) = locs[place.location.unwrap()];
    let tw = place.times[0].as_time_window().unwrap();
    let demand: Option<&Demand<SingleDimLoad>> = single.dimens.get_job_demand();
    let (ps, pd, ds, dd) = demand.map(|d| (d.pickup.0.value, d.pickup.1.value, d.delivery.0.value, d.delivery.1.value)).unwrap_or((0, 0, 0, 0));
    json!({"x": x, "y": y, "s": clamp(tw.start), "e": clamp(tw.end), "svc": place.duration.round() as i64,
           "pickS": ps, "pickD": pd, "delS": ds, "delD": dd, "nplaces": single.places.len(), "nwindows": place.times.len(), "hasDemand": demand.is_some()})
}

fn num_id(job: &Job) -> i64 {
    job.dimens().get_job_id().and_then(|s| s.trim_start_matches('c').parse::<i64>().ok()).unwrap_or(-1)
}

/// customer id of an activity: Solomon / TSPLIB - derived from the job id; Li&Lim - from the position of the pair
fn activity_customer(problem: &Problem, fmt: &str, single: &Arc<Single>, pickups: &[(i64, i64)]) -> i64 {
    for (ji, job) in problem.jobs.all().iter().enumerate() {
        match job {
            Job::Single(s) if Arc::ptr_eq(s, single) => {
                let id = num_id(job);
                return if fmt == "tsplib" { id + 1 } else { id };
            }
            Job::Multi(m) => {
                if let Some(pos) = m.jobs.iter().position(|s| Arc::ptr_eq(s, single)) {
                    let idx = job.dimens().get_job_id().and_then(|s| s.parse::<usize>().ok()).unwrap_or(ji);
                    return if pos == 0 { pickups[idx].0 } else { pickups[idx].1 };
                }
            }
            _ => {}
        }
    }
    -1
}

fn routes_of(problem: &Problem, fmt: &str, solution: &Solution, pickups: &[(i64, i64)]) -> Vec<Vec<i64>> {
    solution
        .routes
        .iter()
        .map(|r| r.tour.all_activities().filter_map(|a| a.job.as_ref()).map(|s| activity_customer(problem, fmt, s, pickups)).collect::<Vec<_>>())
        .filter(|r: &Vec<i64>| !r.is_empty())
        .collect()
}

fn main() {
    quiet_panics();
    let mut out = NdjsonWriter::create(&arg_req("--out"));
    for case in read_ndjson(&arg_req("--in")) {
        let fmt = case["fmt"].as_str().unwrap().to_string();
        let rounded = case["rounded"].as_bool().unwrap();
        let text = case["text"].as_str().unwrap().to_string();
        let pickups: Vec<(i64, i64)> = case["pickups"].as_array().map(|v| v.iter().map(|p| (p[0].as_i64().unwrap(), p[1].as_i64().unwrap())).collect()).unwrap_or_default();
        let (tmp_in, tmp_sol) = (format!("{}.in.tmp", arg_req("--out")), format!("{}.sol.tmp", arg_req("--out")));
        let r = catch(|| -> Value {
            // the path a user takes: the format table of the command line (extensions/solve/formats.rs) over files
            let formats = vrp_cli::extensions::solve::formats::get_formats(rounded, Arc::new(DefaultRandom::default()));
            let (reader, init_reader, writer, _) = match formats.get(fmt.as_str()) {
                Some(f) => f,
                None => return json!({"status": "err", "error": format!("format {fmt} is not in the format table")}),
            };
            std::fs::write(&tmp_in, text.as_bytes()).unwrap();
            let read = (reader.0)(std::fs::File::open(&tmp_in).unwrap(), None);
            let problem = match read {
                Ok(p) => Arc::new(p),
                Err(e) => return json!({"status": "err", "error": e.to_string()}),
            };
            let locs: Vec<(i32, i32)> = problem.extras.get_coord_index().map(|ci| ci.locations.clone()).unwrap_or_default();
            let profile = Profile::default();
            let dist: Vec<Vec<i64>> = (0..locs.len())
                .map(|i| (0..locs.len()).map(|j| (problem.transport.distance_approx(&profile, i, j) * 100.).round() as i64).collect())
                .collect();
            let dur_same = (0..locs.len()).all(|i| (0..locs.len()).all(|j| problem.transport.duration_approx(&profile, i, j) == problem.transport.distance_approx(&profile, i, j)));
            let caps: Vec<i64> = problem.fleet.vehicles.iter().map(|v| v.dimens.get_vehicle_capacity::<SingleDimLoad>().map(|c| c.value as i64).unwrap_or(-1)).collect();
            let depots: Vec<Value> = problem
                .fleet
                .vehicles
                .iter()
                .map(|v| {
                    let d = &v.details[0];
                    let (start, end) = (d.start.as_ref().unwrap(), d.end.as_ref().unwrap());
                    let (x, y) = locs[start.location];
                    json!({"x": x, "y": y, "s": clamp(start.time.earliest.unwrap_or(0.)), "e": clamp(end.time.latest.unwrap_or(f64::MAX)), "sameEnd": start.location == end.location})
                })
                .collect();
            let jobs: Vec<Value> = problem
                .jobs
                .all()
                .iter()
                .map(|job| {
                    let tasks: Vec<Value> = match job {
                        Job::Single(s) => vec![task_json(s, &locs)],
                        Job::Multi(m) => m.jobs.iter().map(|s| task_json(s, &locs)).collect(),
                    };
                    json!({"id": num_id(job), "tasks": tasks})
                })
                .collect();
            // a short solve: do capacity and windows bind as the file says?
            let config = VrpConfigBuilder::new(problem.clone())
                .set_environment(Arc::new(Environment { logger: Arc::new(|_| {}), ..Environment::default() }))
                .prebuild()
                .and_then(|b| b.with_max_generations(Some(20)).with_max_time(Some(10)).build());
            let (mut routes, mut unassigned, mut reread, mut solve_status) = (vec![], vec![], json!("skipped"), "ok".to_string());
            match config.and_then(|c| Solver::new(problem.clone(), c).solve()) {
                Ok(solution) => {
                    routes = routes_of(&problem, &fmt, &solution, &pickups);
                    for (job, _) in solution.unassigned.iter() {
                        match job {
                            Job::Single(_) => unassigned.push(if fmt == "tsplib" { num_id(job) + 1 } else { num_id(job) }),
                            Job::Multi(m) => m.jobs.iter().for_each(|s| unassigned.push(activity_customer(&problem, &fmt, s, &pickups))),
                        }
                    }
                    if fmt != "lilim" && solution.unassigned.is_empty() {
                        let file: Box<dyn std::io::Write> = Box::new(std::fs::File::create(&tmp_sol).unwrap());
                        let written = (writer.0)(problem.as_ref(), solution, BufWriter::new(file), None);
                        reread = match written {
                            Err(e) => json!({"status": "write-err", "error": e.to_string(), "routes": []}),
                            Ok(()) => {
                                match (init_reader.0)(std::fs::File::open(&tmp_sol).unwrap(), problem.clone()) {
                                    Ok(s) => json!({"status": "ok", "routes": routes_of(&problem, &fmt, &s, &pickups), "unassigned": s.unassigned.len()}),
                                    Err(e) => json!({"status": "read-err", "error": e.to_string(), "routes": []}),
                                }
                            }
                        };
                    }
                }
                Err(e) => solve_status = format!("err: {e}"),
            }
            json!({"status": "ok", "vehicles": problem.fleet.vehicles.len(), "caps": caps, "depots": depots, "jobs": jobs,
                   "locs": locs.iter().map(|(x, y)| json!([x, y])).collect::<Vec<_>>(), "dist": dist, "durEqualsDist": dur_same,
                   "solve": solve_status, "routes": routes, "unassigned": unassigned, "reread": reread})
        });
        let mut v = match r {
            Ok(v) => v,
            Err(p) => json!({"status": "panic", "error": p}),
        };
        v["c"] = case["c"].clone();
        out.write(&v);
    }
    out.finish();
}
