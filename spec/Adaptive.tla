------------------------------- MODULE Adaptive -------------------------------
(***************************************************************************)
(* C18: the learning state of one arm of the adaptive operator selector    *)
(* (algorithms/rl/slot_machine.rs) and the termination mathematics.        *)
(*                                                                         *)
(* Slot machine (Normal-Gamma posterior).  The code keeps (n, alpha, beta, *)
(* mu, v).  For integer rewards the state is exact in integers:            *)
(*    n, S = sum of rewards, B24 = 24 * beta                               *)
(*    alpha = 1 + n / 2,  mu = S / n (prior mean 1 before any reward),     *)
(*    v = beta / (alpha + 1) = B24 / (12 * (n + 4))                        *)
(*    update(r): beta += (n / (n + 1)) * (r - mu)^2 / 2                    *)
(*             = 12 * (r * n - S)^2 / (n * (n + 1)) in units of 1/24       *)
(* which is an integer for n <= 3, so histories of up to 4 rewards are     *)
(* modelled exactly.  lo / hi: the hull of the rewards seen.               *)
(***************************************************************************)
EXTENDS Naturals, Integers, Sequences, SequencesExt, FiniteSets, FiniteSetsExt, TLC
CONSTANTS Rewards, MaxN
VARIABLES n, S, B24, lo, hi, hist
avars == <<n, S, B24, lo, hi, hist>>
A_Delta(nn, SS, r) == IF nn = 0 THEN 0 ELSE (12 * (r * nn - SS) * (r * nn - SS)) \div (nn * (nn + 1))
A_Exact(nn, SS, r) == nn = 0 \/ (12 * (r * nn - SS) * (r * nn - SS)) % (nn * (nn + 1)) = 0
AInit == n = 0 /\ S = 0 /\ B24 = 240 /\ lo = 0 /\ hi = 0 /\ hist = <<>>
AUpdate(r) == /\ n < MaxN
              /\ B24' = B24 + A_Delta(n, S, r) /\ S' = S + r /\ n' = n + 1
              /\ lo' = (IF n = 0 \/ r < lo THEN r ELSE lo) /\ hi' = (IF n = 0 \/ r > hi THEN r ELSE hi)
              /\ hist' = Append(hist, r)
ANext == \E r \in Rewards : AUpdate(r)
ASpec == AInit /\ [][ANext]_avars
\* "positive shape and rate, non-negative variance, mean within the hull of seen rewards"
ShapePositive == 2 + n > 0
RatePositive == B24 > 0
VarianceNonNegative == B24 >= 0                  \* v = B24 / (12 (n + 4))
MeanInHull == n > 0 => lo * n <= S /\ S <= hi * n
RateNeverDecreases == [][B24' >= B24]_avars
ModelExact == \A r \in Rewards : n < MaxN => A_Exact(n, S, r)
\* what the code must report after the history `hist` (exact values in the units above)
A_Expected(h) == LET st == FoldLeft(LAMBDA a, r : [n |-> a.n + 1, S |-> a.S + r, B24 |-> a.B24 + A_Delta(a.n, a.S, r)], [n |-> 0, S |-> 0, B24 |-> 240], h)
                 IN [n |-> st.n, alpha2 |-> 2 + st.n, B24 |-> st.B24, S |-> st.S]

(************************** termination mathematics ************************)
\* coefficient of variation of a window of integers against a threshold tn / td, without square roots:
\* cv = sqrt(var) / mean <= t  <=>  var * td^2 <= t n^2 * mean^2  (mean > 0), population variance; mean = 0 gives cv = 0
A_Sum(s) == FoldLeft(LAMBDA a, b : a + b, 0, s)
A_CvAtMost(xs, tn, td) == LET k == Len(xs) sum == A_Sum(xs) sq == A_Sum([i \in 1..k |-> xs[i] * xs[i]]) IN
  sum = 0 \/ (k * sq - sum * sum) * td * td <= tn * tn * sum * sum
A_CvEquals(xs, tn, td) == LET k == Len(xs) sum == A_Sum(xs) sq == A_Sum([i \in 1..k |-> xs[i] * xs[i]]) IN
  sum # 0 /\ (k * sq - sum * sum) * td * td = tn * tn * sum * sum
\* the variation criterion with a window of `sample` generations, asked at generation g (0-based) after the best fitness
\* vectors fits[1..g+1]: not before the window is full; then every objective has to be quiet
A_Window(fits, sample, g) == [i \in 1..sample |-> fits[g + 1 - sample + i]]
A_MinVariationQuiet(fits, sample, g, tn, td) ==
  /\ g >= sample - 1
  /\ \A o \in 1..Len(fits[1]) : A_CvAtMost([i \in 1..sample |-> A_Window(fits, sample, g)[i][o]], tn, td)
\* a criterion that is not global is asked in every generation (the window is always recorded) but answers only in the
\* exploitation phase of the population; phases[g + 1] is the phase at generation g
A_MinVariationFires(fits, sample, g, tn, td, global, phases) ==
  A_MinVariationQuiet(fits, sample, g, tn, td) /\ (global \/ phases[g + 1] = "exploitation")
\* a window whose verdict hinges on an exact tie with the threshold is left out of the comparison (floating point rounding)
A_MinVariationTie(fits, sample, g, tn, td) ==
  g >= sample - 1 /\ \E o \in 1..Len(fits[1]) : A_CvEquals([i \in 1..sample |-> A_Window(fits, sample, g)[i][o]], tn, td)
=============================================================================
