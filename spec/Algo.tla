-------------------------------- MODULE Algo --------------------------------
(***************************************************************************)
(* C17: contracts of the embedded algorithms, as predicates over (input,   *)
(* output) pairs.  Dbscan.tla adds a step-level model of the density       *)
(* clustering whose terminal states are checked against the contract for   *)
(* every neighbourhood relation on up to 4 points.                         *)
(*                                                                         *)
(* Nodes and points are 1..n here; the harness shifts them to 0-based.     *)
(***************************************************************************)
EXTENDS Naturals, Integers, Sequences, SequencesExt, FiniteSets, FiniteSetsExt, TLC

A_Sum(s) == FoldLeft(LAMBDA a, b : a + b, 0, s)
A_Range(s) == { s[i] : i \in 1..Len(s) }
A_NoDup(s) == \A i, j \in 1..Len(s) : i # j => s[i] # s[j]

(************************* Lin-Kernighan re-sequencing *********************)
\* m: symmetric n x n cost matrix; p: a path (sequence of distinct nodes)
A_ClosedCost(m, p) == IF Len(p) < 2 THEN 0 ELSE
  A_Sum([i \in 1..Len(p) |-> m[p[i]][p[(i % Len(p)) + 1]]])
A_IsPermOf(q, p) == Len(q) = Len(p) /\ A_NoDup(q) /\ A_Range(q) = A_Range(p)
A_LkhPermutation(p, outs) == \A k \in 1..Len(outs) : A_IsPermOf(outs[k], p)
A_LkhSameStart(p, outs) == \A k \in 1..Len(outs) : Len(outs[k]) > 0 /\ Len(p) > 0 => outs[k][1] = p[1]
A_LkhNotWorse(m, p, outs) == \A k \in 1..Len(outs) : A_IsPermOf(outs[k], p) => A_ClosedCost(m, outs[k]) <= A_ClosedCost(m, p)
\* a result exists (the caller takes .last())
A_LkhSome(outs) == Len(outs) >= 1

(**************************** density clustering ***************************)
\* nb: [1..n -> SUBSET 1..n] neighbourhood (what neighborhood_fn yields), minPts
A_Core(nb, minPts, p) == Cardinality(nb[p]) >= minPts
\* points density-reachable from c: closure of "neighbour of a core point already reached"
RECURSIVE A_ReachFrom(_, _, _)
A_ReachFrom(nb, minPts, S) ==
  LET T == S \cup UNION { nb[p] : p \in { q \in S : A_Core(nb, minPts, q) } } IN
  IF T = S THEN S ELSE A_ReachFrom(nb, minPts, T)
A_DensityReachable(nb, minPts, c) == A_ReachFrom(nb, minPts, {c})
A_DbDisjoint(clusters) ==
  /\ \A k \in 1..Len(clusters) : A_NoDup(clusters[k])
  /\ \A k, l \in 1..Len(clusters) : k # l => A_Range(clusters[k]) \cap A_Range(clusters[l]) = {}
\* "grown from a core point": the cluster contains a core point from which all of its members are density-reachable
A_DbGrown(nb, minPts, clusters) ==
  \A k \in 1..Len(clusters) :
    \E c \in A_Range(clusters[k]) : A_Core(nb, minPts, c) /\ A_Range(clusters[k]) \subseteq A_DensityReachable(nb, minPts, c)
A_DbCoreClustered(nb, minPts, points, clusters) ==
  \A p \in A_Range(points) : A_Core(nb, minPts, p) => \E k \in 1..Len(clusters) : p \in A_Range(clusters[k])
A_DbOnlyGivenPoints(points, clusters) == \A k \in 1..Len(clusters) : A_Range(clusters[k]) \subseteq A_Range(points)

(********************************* k-medoids *******************************)
\* d: n x n distance matrix; clusters: sequence of [medoid, members]
A_KmPartition(points, clusters) ==
  /\ \A k \in 1..Len(clusters) : A_NoDup(clusters[k].members)
  /\ \A k, l \in 1..Len(clusters) : k # l => A_Range(clusters[k].members) \cap A_Range(clusters[l].members) = {}
  /\ UNION { A_Range(clusters[k].members) : k \in 1..Len(clusters) } = A_Range(points)
A_KmNearest(d, clusters) ==
  \A k, l \in 1..Len(clusters) : \A p \in A_Range(clusters[k].members) :
     d[p][clusters[k].medoid] <= d[p][clusters[l].medoid]
A_KmMedoidsDistinct(clusters) == \A k, l \in 1..Len(clusters) : k # l => clusters[k].medoid # clusters[l].medoid
A_KmAtMostK(k, clusters) == Len(clusters) <= k /\ Len(clusters) >= 1
\* hierarchy: every tier partitions all points, refines the tier above, and the nearest-medoid rule holds among the
\* clusters that split the same parent (a point may well be closer to a medoid inside another parent)
A_Parent(upper, c) == { k \in 1..Len(upper) : A_Range(c.members) \subseteq A_Range(upper[k].members) }
A_HierPartition(points, tiers) == \A t \in 1..Len(tiers) : A_KmPartition(points, tiers[t])
A_HierRefines(tiers) == \A t \in 2..Len(tiers) : \A k \in 1..Len(tiers[t]) : A_Parent(tiers[t - 1], tiers[t][k]) # {}
A_HierNearestAmongSiblings(d, tiers) ==
  \A t \in 1..Len(tiers) : \A k, l \in 1..Len(tiers[t]) :
    (t = 1 \/ A_Parent(tiers[t - 1], tiers[t][k]) = A_Parent(tiers[t - 1], tiers[t][l])) =>
      \A p \in A_Range(tiers[t][k].members) : d[p][tiers[t][k].medoid] <= d[p][tiers[t][l].medoid]
A_HierAtMostTiers(maxTiers, tiers) == Len(tiers) <= maxTiers

=============================================================================
