INIT Init
NEXT Next
