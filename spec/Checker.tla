------------------------------- MODULE Checker -------------------------------
(***************************************************************************)
(* C12: breach classes as actions on a recorded valid (problem, solution)  *)
(* pair.  For every accepted record TLC enumerates every applicable        *)
(* (class, site) breach, applies it to the abstract record, keeps it only  *)
(* when the definitions of VrpModel really find the mutated pair invalid   *)
(* (a harmless "mutation" is never demanded to be rejected) and writes the *)
(* breach descriptor.  The driver applies the same descriptor mechanically *)
(* to the real documents and hands them to the bundled checker.            *)
(* Magnitudes exceed the checker's documented tolerances (arrival and      *)
(* distance are compared with +-1, cost is ignored).                       *)
(***************************************************************************)
EXTENDS VrpModel, Json, IOUtils
Recs == ndJsonDeserialize(IOEnv.RECS)

C_Reflat(t) == [t EXCEPT !.flat = FoldLeft(LAMBDA acc, k : acc \o [i \in 1..Len(t.stops[k].acts) |-> [t.stops[k].acts[i] EXCEPT !.stop = k]],
                                            <<>>, V_Idx(t.stops))]
C_SetTour(r, k, t) == [r EXCEPT !.tours[k] = C_Reflat(t)]
C_RemoveAt(s, i) == SubSeq(s, 1, i - 1) \o SubSeq(s, i + 1, Len(s))
C_InsertAt(s, i, x) == SubSeq(s, 1, i) \o <<x>> \o SubSeq(s, i + 1, Len(s))
C_IsJobAct(a) == a.type \in V_JobKinds

\* ---- sites ----
C_Tours(r) == 1..Len(r.tours)
C_Stops(r, k) == 1..Len(r.tours[k].stops)
C_Acts(r, k, s) == 1..Len(r.tours[k].stops[s].acts)
C_JobSites(r) == { <<k, s, a>> \in UNION { UNION { { <<k, s, a>> : a \in C_Acts(r, k, s) } : s \in C_Stops(r, k) } : k \in C_Tours(r) } :
                     C_IsJobAct(r.tours[k].stops[s].acts[a]) }
C_StopSites(r) == UNION { { <<k, s>> : s \in C_Stops(r, k) } : k \in C_Tours(r) }

\* ---- breach classes: [class, ...site] |-> mutated record ----
\* misreported load: the load reported at one stop is one unit off in the first dimension
MisreportLoad(r, k, s) ==
  C_SetTour(r, k, [r.tours[k] EXCEPT !.stops[s].load = [i \in 1..V_Dim(r) |-> V_Pad(@, V_Dim(r))[i] + (IF i = 1 THEN 1 ELSE 0)]])
\* unknown job: an activity names a job that is not in the plan
UnknownJob(r, k, s, a) == C_SetTour(r, k, [r.tours[k] EXCEPT !.stops[s].acts[a].job = "ghost-job", !.stops[s].acts[a].jix = 0])
\* duplicated job: the same activity is listed twice
DuplicateJob(r, k, s, a) == C_SetTour(r, k, [r.tours[k] EXCEPT !.stops[s].acts = C_InsertAt(@, a, @[a])])
\* dropped job: an activity disappears (the job is then neither assigned nor unassigned)
\* (a stop that loses its only activity disappears with it)
C_DropAct(t, s, a) == IF Len(t.stops[s].acts) = 1 THEN [t EXCEPT !.stops = C_RemoveAt(@, s)] ELSE [t EXCEPT !.stops[s].acts = C_RemoveAt(@, a)]
DropJob(r, k, s, a) == C_SetTour(r, k, C_DropAct(r.tours[k], s, a))
\* listed both assigned and unassigned
AssignedAndUnassigned(r, k, s, a) ==
  [r EXCEPT !.unassigned = Append(@, [job |-> r.tours[k].stops[s].acts[a].job, jix |-> r.tours[k].stops[s].acts[a].jix, nreasons |-> 1])]
\* a job split over tours: one task of a multi-task job moves to the end of another tour's last job stop
SplitJob(r, k, s, a, k2) ==
  LET act == r.tours[k].stops[s].acts[a]
      r1 == C_SetTour(r, k, C_DropAct(r.tours[k], s, a))
      s2 == Len(r.tours[k2].stops) - (IF r.tours[k2].flat[Len(r.tours[k2].flat)].type = "arrival" THEN 1 ELSE 0)
  IN C_SetTour(r1, k2, [r1.tours[k2] EXCEPT !.stops[s2].acts = Append(@, [act EXCEPT !.loc = r1.tours[k2].stops[s2].loc])])
\* arrival mismatch: the arrival reported at a stop (not the first) is two seconds late
ShiftArrival(r, k, s) ==
  C_SetTour(r, k, [r.tours[k] EXCEPT !.stops[s].arr = @ + 2])
\* distance mismatch: the cumulative distance reported at a stop is two units off
WrongDistance(r, k, s) == C_SetTour(r, k, [r.tours[k] EXCEPT !.stops[s].dist = @ + 2])
\* statistic mismatch (distance / duration of a tour, overall distance / duration; cost is not checked by design)
WrongTourDistance(r, k) == [r EXCEPT !.tours[k].stat.distance = @ + 5]
WrongTourDuration(r, k) == [r EXCEPT !.tours[k].stat.duration = @ + 5]
WrongOverallDistance(r) == [r EXCEPT !.stat.distance = @ + 3]
WrongOverallDuration(r) == [r EXCEPT !.stat.duration = @ + 3]
\* load above capacity: the vehicle type of a tour carries less than the tour's peak load (first dimension)
C_PeakLoad(r, k) == Max({ V_Pad(r.tours[k].stops[s].load, V_Dim(r))[1] : s \in C_Stops(r, k) })
OverCapacity(r, k) == [r EXCEPT !.vehicles = [v \in 1..Len(@) |->
                         IF @[v].type = r.tours[k].type THEN [@[v] EXCEPT !.cap = [i \in 1..Len(@) |-> IF i = 1 THEN C_PeakLoad(r, k) - 1 ELSE @[i]]] ELSE @[v]]]
\* limit breach: the vehicle type of a tour gets a limit just below what the tour uses
C_SetLimit(r, k, field, value) == [r EXCEPT !.vehicles = [v \in 1..Len(@) |->
                         IF @[v].type = r.tours[k].type THEN [@[v] EXCEPT ![field] = value] ELSE @[v]]]
LimitDistance_(r, k) == C_SetLimit(r, k, "maxDist", r.tours[k].stat.distance - 2)
LimitDuration_(r, k) == C_SetLimit(r, k, "maxDur", r.tours[k].stat.duration - 2)
LimitTourSize_(r, k) == C_SetLimit(r, k, "tourSize", Len(V_Inner(r.tours[k])) - 1)
\* limit breach, recharge stations: the distance budget of the tour's shift is set just below the longest stretch the tour drives
\* between two recharge stops (or start / end)
C_MaxSpan(r, k) == Max(V_Range(V_RechargeSpans(r, r.tours[k])) \cup {0})
LimitRecharge_(r, k) == [r EXCEPT !.vehicles = [v \in 1..Len(@) |->
                         IF @[v].type = r.tours[k].type THEN [@[v] EXCEPT !.shifts[r.tours[k].shift].recharge.max = C_MaxSpan(r, k) - 2] ELSE @[v]]]
\* limit breach, shift time: the shift of tour k must be over two units before the tour arrives (shifts with an end), or may only
\* start two units after the tour has left
C_SetShift(r, k, field, value) == [r EXCEPT !.vehicles = [v \in 1..Len(@) |->
                         IF @[v].type = r.tours[k].type THEN [@[v] EXCEPT !.shifts[r.tours[k].shift][field] = value] ELSE @[v]]]
ShiftEndsEarly(r, k) == C_SetShift(r, k, "elatest", r.tours[k].stops[Len(r.tours[k].stops)].arr - 2)
ShiftStartsLate(r, k) == C_SetShift(r, k, "earliest", V_DepTime(r.tours[k]) + 2)
\* broken relation: a relation is added that pins a job of tour k to the vehicle of another tour k2
BreakRelation(r, k, s, a, k2) ==
  [r EXCEPT !.relations = Append(@, [type |-> "any", vehicle |-> r.tours[k2].vehicle, shift |-> r.tours[k2].shift,
                                     jobs |-> << [id |-> r.tours[k].stops[s].acts[a].job, jix |-> r.tours[k].stops[s].acts[a].jix] >>])]
\* broken relation, default shift: an ordering relation without a shift index pins its jobs to the FIRST shift of the vehicle; here
\* the job is served by that vehicle in a later shift
BreakRelationFirstShift(r, k, s, a) ==
  [r EXCEPT !.relations = Append(@, [type |-> "strict", vehicle |-> r.tours[k].vehicle, shift |-> 1,
                                     jobs |-> << [id |-> r.tours[k].stops[s].acts[a].job, jix |-> r.tours[k].stops[s].acts[a].jix] >>])]
\* misplaced break: the break is reported an hour later than it is taken (its activity time no longer matches)
MisplaceBreak(r, k, s, a) == C_SetTour(r, k, [r.tours[k] EXCEPT !.stops[s].acts[a].start = @ + 3600, !.stops[s].acts[a].end = @ + 3600])

\* ---- enumeration: descriptor + the invariant that makes the mutated pair invalid ----
Breaches(r) ==
  { [class |-> "MisreportLoad", k |-> ks[1], s |-> ks[2], a |-> 0, k2 |-> 0] : ks \in { x \in C_StopSites(r) : ~ReportedLoad(MisreportLoad(r, x[1], x[2])) } }
  \cup { [class |-> "UnknownJob", k |-> x[1], s |-> x[2], a |-> x[3], k2 |-> 0] : x \in { x \in C_JobSites(r) : ~NoForeignIds(UnknownJob(r, x[1], x[2], x[3])) } }
  \cup { [class |-> "DuplicateJob", k |-> x[1], s |-> x[2], a |-> x[3], k2 |-> 0] : x \in { x \in C_JobSites(r) : ~PartitionJobs(DuplicateJob(r, x[1], x[2], x[3])) } }
  \cup { [class |-> "DropJob", k |-> x[1], s |-> x[2], a |-> x[3], k2 |-> 0] : x \in { x \in C_JobSites(r) : ~PartitionJobs(DropJob(r, x[1], x[2], x[3])) } }
  \cup { [class |-> "AssignedAndUnassigned", k |-> x[1], s |-> x[2], a |-> x[3], k2 |-> 0] : x \in { x \in C_JobSites(r) : ~PartitionJobs(AssignedAndUnassigned(r, x[1], x[2], x[3])) } }
  \cup { [class |-> "SplitJob", k |-> x[1], s |-> x[2], a |-> x[3], k2 |-> k2] : x \in { x \in C_JobSites(r) : Len(r.jobs[r.tours[x[1]].stops[x[2]].acts[x[3]].jix].tasks) > 1 },
                                                                          k2 \in { k2 \in C_Tours(r) : \E x \in C_JobSites(r) : k2 # x[1] } }
  \cup { [class |-> "ShiftArrival", k |-> ks[1], s |-> ks[2], a |-> 0, k2 |-> 0] : ks \in { x \in C_StopSites(r) : x[2] > 1 /\ ~ScheduleArrivals(ShiftArrival(r, x[1], x[2])) } }
  \cup { [class |-> "WrongDistance", k |-> ks[1], s |-> ks[2], a |-> 0, k2 |-> 0] : ks \in { x \in C_StopSites(r) : x[2] > 1 /\ ~StopDistances(WrongDistance(r, x[1], x[2])) } }
  \cup { [class |-> "WrongTourDistance", k |-> k, s |-> 0, a |-> 0, k2 |-> 0] : k \in { k \in C_Tours(r) : ~TourStat(WrongTourDistance(r, k)) } }
  \cup { [class |-> "WrongTourDuration", k |-> k, s |-> 0, a |-> 0, k2 |-> 0] : k \in { k \in C_Tours(r) : ~TourStat(WrongTourDuration(r, k)) } }
  \cup (IF r.tours # <<>> THEN { [class |-> "WrongOverallDistance", k |-> 0, s |-> 0, a |-> 0, k2 |-> 0], [class |-> "WrongOverallDuration", k |-> 0, s |-> 0, a |-> 0, k2 |-> 0] } ELSE {})
  \cup { [class |-> "OverCapacity", k |-> k, s |-> 0, a |-> 0, k2 |-> 0] : k \in { k \in C_Tours(r) : C_PeakLoad(r, k) >= 1 /\ ~Capacity(OverCapacity(r, k)) } }
  \cup { [class |-> "LimitDistance", k |-> k, s |-> 0, a |-> 0, k2 |-> 0] : k \in { k \in C_Tours(r) : r.tours[k].stat.distance > 2 /\ ~LimitDistance(LimitDistance_(r, k)) } }
  \cup { [class |-> "LimitDuration", k |-> k, s |-> 0, a |-> 0, k2 |-> 0] : k \in { k \in C_Tours(r) : r.tours[k].stat.duration > 2 /\ ~LimitDuration(LimitDuration_(r, k)) } }
  \cup { [class |-> "LimitTourSize", k |-> k, s |-> 0, a |-> 0, k2 |-> 0] : k \in { k \in C_Tours(r) : Len(V_Inner(r.tours[k])) >= 1 /\ ~LimitTourSize(LimitTourSize_(r, k)) } }
  \cup { [class |-> "ShiftEndsEarly", k |-> k, s |-> 0, a |-> 0, k2 |-> 0] :
            k \in { k \in C_Tours(r) : V_Shift(r, r.tours[k]).hasEnd /\ ~ShiftEnd(ShiftEndsEarly(r, k)) } }
  \cup { [class |-> "ShiftStartsLate", k |-> k, s |-> 0, a |-> 0, k2 |-> 0] :
            k \in { k \in C_Tours(r) : ~DepartureNotBeforeEarliest(ShiftStartsLate(r, k)) } }
  \cup { [class |-> "LimitRecharge", k |-> k, s |-> 0, a |-> 0, k2 |-> 0] :
            k \in { k \in C_Tours(r) : V_Shift(r, r.tours[k]).recharge.max # -1 /\ C_MaxSpan(r, k) > 2 /\ ~RechargeDistance(LimitRecharge_(r, k)) } }
  \cup { [class |-> "BreakRelation", k |-> x[1], s |-> x[2], a |-> x[3], k2 |-> k2] : x \in C_JobSites(r),
            k2 \in { k2 \in C_Tours(r) : \E x \in C_JobSites(r) : k2 # x[1] /\ <<r.tours[k2].vehicle, r.tours[k2].shift>> # <<r.tours[x[1]].vehicle, r.tours[x[1]].shift>> } }
  \cup { [class |-> "BreakRelationFirstShift", k |-> x[1], s |-> x[2], a |-> x[3], k2 |-> 0] :
            x \in { x \in C_JobSites(r) : r.tours[x[1]].shift > 1 /\ ~RelationVehicle(BreakRelationFirstShift(r, x[1], x[2], x[3])) } }
  \cup { [class |-> "MisplaceBreak", k |-> x[1], s |-> x[2], a |-> x[3], k2 |-> 0] :
            x \in { x \in UNION { UNION { { <<k, s, a>> : a \in C_Acts(r, k, s) } : s \in C_Stops(r, k) } : k \in C_Tours(r) } :
                      r.tours[x[1]].stops[x[2]].acts[x[3]].type = "break" /\ ~PlacesAndWindows(MisplaceBreak(r, x[1], x[2], x[3])) } }
\* SplitJob / BreakRelation carry k2 in their site: filter the ones that are really invalid
Demanded(r, b) ==
  CASE b.class = "SplitJob" -> b.k2 # b.k /\ ~PartitionJobs(SplitJob(r, b.k, b.s, b.a, b.k2))
    [] b.class = "BreakRelation" -> b.k2 # b.k /\ ~RelationVehicle(BreakRelation(r, b.k, b.s, b.a, b.k2))
    [] OTHER -> TRUE
Out == FoldLeft(LAMBDA acc, i : acc \o SetToSeq({ [rec |-> Recs[i].id, class |-> b.class, k |-> b.k, s |-> b.s, a |-> b.a, k2 |-> b.k2] :
                                                     b \in { b \in Breaches(Recs[i]) : Demanded(Recs[i], b) } }), <<>>, V_Idx(Recs))
ASSUME \A i \in 1..Len(Recs) : Valid(Recs[i]) \/ PrintT("NOT-VALID " \o Recs[i].id)
ASSUME ndJsonSerialize(IOEnv.OUTFILE, Out)
ASSUME PrintT("GENERATED " \o ToString(Len(Out)))
VARIABLE x
Init == x = 0
Next == UNCHANGED x
=============================================================================
