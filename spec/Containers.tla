----------------------------- MODULE Containers -----------------------------
(***************************************************************************)
(* C14: reference models of Tour (vrp-core models/solution/tour.rs) and of *)
(* the vehicle Registry / RegistryContext (registry.rs, heuristics/        *)
(* context.rs), each with an original instance A and a deep copy B so that *)
(* independence of copies is part of the state space.                      *)
(* An activity is <<job, task>>; jobs 1..NSingle are single-task, the job  *)
(* "multi" (id 9) has tasks 1 and 2.  `hist` records, for every step, the  *)
(* operation and the full expected observation of BOTH instances; TLC in   *)
(* simulation mode prints complete histories which the harness replays     *)
(* (G binding), BFS mode checks the invariants exhaustively.               *)
(***************************************************************************)
EXTENDS Naturals, Sequences, FiniteSets, TLC, Json
CONSTANTS Closed,        \* the tour has an end depot
          Depth          \* length of generated histories
Acts == { <<1, 1>>, <<2, 1>>, <<9, 1>>, <<9, 2>> }
Jobs == { 1, 2, 9 }
Actors == { "a1", "a2", "b1" }               \* two actors of group 1, one of group 2
Group(a) == IF a = "b1" THEN 2 ELSE 1
NoCopy == << <<0, 0>> >>                      \* "there is no copy yet" (a tour never contains activity <<0,0>>)

VARIABLES tourA, tourB,        \* job activities between the depot ends
          availA, availB,      \* registry: available actors; {"none"} = no copy yet
          knownB,              \* actors the copy knows (a slice only knows the actors that passed its filter)
          hist
vars == <<tourA, tourB, availA, availB, knownB, hist>>

T_JobsOf(t) == { t[i][1] : i \in 1..Len(t) }
T_Remove(t, j) == SelectSeq(t, LAMBDA x : x[1] # j)
T_InsAt(t, x, i) == SubSeq(t, 1, i - 1) \o <<x>> \o SubSeq(t, i, Len(t))    \* i = index among ALL activities (start = 0)
\* observation of one tour: what the harness reads through the public API
T_Obs(t) == IF t = NoCopy THEN [none |-> TRUE] ELSE
  [none |-> FALSE, acts |-> t, jobs |-> T_JobsOf(t), jobCount |-> Cardinality(T_JobsOf(t)), jobActivityCount |-> Len(t),
   total |-> Len(t) + (IF Closed THEN 2 ELSE 1), hasJobs |-> t # <<>>,
   \* legs as pairs of activity indices; an open tour with jobs has the extra singleton leg of its last activity
   legs |-> LET n == Len(t) + (IF Closed THEN 2 ELSE 1) IN
            IF n = 1 THEN << <<0, 0>> >>
            ELSE [i \in 1..(n - 1) |-> <<i - 1, i>>] \o (IF ~Closed THEN << <<n - 1, n - 1>> >> ELSE <<>>)]
R_Obs(av) == IF av = {"none"} THEN [none |-> TRUE] ELSE
  [none |-> FALSE, available |-> av, groupsWithNext |-> { Group(a) : a \in av }]
Obs == [tourA |-> T_Obs(tourA), tourB |-> T_Obs(tourB), regA |-> R_Obs(availA), regB |-> R_Obs(availB)]
Log(op, res) == hist' = Append(hist, [op |-> op, res |-> res, obs |-> [tourA |-> T_Obs(tourA'), tourB |-> T_Obs(tourB'),
                                                                      regA |-> R_Obs(availA'), regB |-> R_Obs(availB')]])

Init == tourA = <<>> /\ tourB = NoCopy /\ availA = Actors /\ availB = {"none"} /\ knownB = {} /\ hist = <<>>

\* ------------------------------- tour ------------------------------------
TourOp(which, t, t2) == IF which = "A" THEN tourA' = t2 /\ UNCHANGED tourB ELSE tourB' = t2 /\ UNCHANGED tourA
Cur(which) == IF which = "A" THEN tourA ELSE tourB
InsertAt(which, x, i) ==
  /\ Cur(which) # NoCopy /\ Len(Cur(which)) < 4 /\ i \in 1..(Len(Cur(which)) + 1)
  /\ TourOp(which, Cur(which), T_InsAt(Cur(which), x, i))
  /\ UNCHANGED <<availA, availB, knownB>> /\ Log([name |-> "insert_at", on |-> which, j |-> x[1], t |-> x[2], i |-> i], "ok")
InsertLast(which, x) ==
  /\ Cur(which) # NoCopy /\ Len(Cur(which)) < 4
  /\ TourOp(which, Cur(which), Append(Cur(which), x))
  /\ UNCHANGED <<availA, availB, knownB>> /\ Log([name |-> "insert_last", on |-> which, j |-> x[1], t |-> x[2], i |-> 0], "ok")
RemoveJob(which, j) ==
  /\ Cur(which) # NoCopy
  /\ TourOp(which, Cur(which), T_Remove(Cur(which), j))
  /\ UNCHANGED <<availA, availB, knownB>>
  /\ Log([name |-> "remove", on |-> which, j |-> j, t |-> 0, i |-> 0], IF j \in T_JobsOf(Cur(which)) THEN "true" ELSE "false")
\* removal addressed through the handle of ONE TASK of a multi-task job (`Job::Single(sub)`): such a handle is no member of any tour (its
\* activities belong to the multi job), so nothing is removed and the answer is false
RemoveBySubJob(which, j, t) ==
  /\ Cur(which) # NoCopy
  /\ TourOp(which, Cur(which), Cur(which))
  /\ UNCHANGED <<availA, availB, knownB>>
  /\ Log([name |-> "remove_sub", on |-> which, j |-> j, t |-> t, i |-> 0], "false")
\* index over all activities: 0 is the start, Len+1 the end of a closed tour (removing them panics by contract)
RemoveActivityAt(which, i) ==
  /\ Cur(which) # NoCopy /\ i \in 0..(Len(Cur(which)) + 2)
  /\ UNCHANGED <<availA, availB, knownB>>
  /\ IF i \in 1..Len(Cur(which))
     THEN TourOp(which, Cur(which), T_Remove(Cur(which), Cur(which)[i][1]))
          /\ Log([name |-> "remove_activity_at", on |-> which, j |-> 0, t |-> 0, i |-> i], "job" \o ToString(Cur(which)[i][1]))
     ELSE UNCHANGED <<tourA, tourB>> /\ Log([name |-> "remove_activity_at", on |-> which, j |-> 0, t |-> 0, i |-> i], "panic")
TourDeepCopy ==
  /\ tourB' = tourA /\ UNCHANGED <<tourA, availA, availB, knownB>>
  /\ Log([name |-> "tour_deep_copy", on |-> "A", j |-> 0, t |-> 0, i |-> 0], "ok")

\* ----------------------------- registry ----------------------------------
RegOp(which, av2) == IF which = "A" THEN availA' = av2 /\ UNCHANGED availB ELSE availB' = av2 /\ UNCHANGED availA
CurR(which) == IF which = "A" THEN availA ELSE availB
\* use_actor / get_route: succeeds exactly when the actor is available, then it is no longer offered
Known(which) == IF which = "A" THEN Actors ELSE knownB
UseActor(which, a, name) ==
  /\ CurR(which) # {"none"}
  /\ RegOp(which, CurR(which) \ {a})
  /\ UNCHANGED <<tourA, tourB, knownB>> /\ Log([name |-> name, on |-> which, a |-> a], IF a \in CurR(which) THEN "true" ELSE "false")
\* free_actor / free_route: succeeds exactly when the actor is known to this registry and was in use
FreeActor(which, a, name) ==
  /\ CurR(which) # {"none"}
  /\ RegOp(which, IF a \in Known(which) THEN CurR(which) \cup {a} ELSE CurR(which))
  /\ UNCHANGED <<tourA, tourB, knownB>>
  /\ Log([name |-> name, on |-> which, a |-> a], IF a \in Known(which) /\ a \notin CurR(which) THEN "true" ELSE "false")
RegDeepCopy == /\ availB' = availA /\ knownB' = Actors /\ UNCHANGED <<availA, tourA, tourB>> /\ Log([name |-> "registry_deep_copy", on |-> "A", a |-> ""], "ok")
\* deep_slice keeps only the actors of group 1
RegDeepSlice == /\ availB' = { a \in availA : Group(a) = 1 } /\ knownB' = { a \in Actors : Group(a) = 1 } /\ UNCHANGED <<availA, tourA, tourB>>
                /\ Log([name |-> "registry_deep_slice", on |-> "A", a |-> ""], "ok")

Next == /\ Len(hist) < Depth
        /\ \/ \E w \in {"A", "B"}, x \in Acts, i \in 1..5 : InsertAt(w, x, i)
           \/ \E w \in {"A", "B"}, x \in Acts : InsertLast(w, x)
           \/ \E w \in {"A", "B"}, j \in Jobs : RemoveJob(w, j)
           \/ \E w \in {"A", "B"}, x \in { x \in Acts : \E y \in Acts : y[1] = x[1] /\ y[2] # x[2] } : RemoveBySubJob(w, x[1], x[2])
           \/ \E w \in {"A", "B"}, i \in 0..6 : RemoveActivityAt(w, i)
           \/ TourDeepCopy
           \/ \E w \in {"A", "B"}, a \in Actors, n \in {"use_actor", "get_route"} : UseActor(w, a, n)
           \/ \E w \in {"A", "B"}, a \in Actors, n \in {"free_actor", "free_route"} : FreeActor(w, a, n)
           \/ RegDeepCopy \/ RegDeepSlice
Spec == Init /\ [][Next]_vars

\* ------------------------------ invariants -------------------------------
\* "job set equal to the jobs of its activities, consistent counts, legs match consecutive activities"
TourWellFormed == \A t \in {tourA, tourB} : t = NoCopy \/
   /\ T_Obs(t).jobCount <= T_Obs(t).jobActivityCount
   /\ Len(T_Obs(t).legs) = (IF T_Obs(t).total = 1 THEN 1 ELSE T_Obs(t).total - 1 + (IF Closed THEN 0 ELSE 1))
\* "the registry offers a vehicle exactly when it is not in use": next() offers one actor per group that has one
RegistryWellFormed == \A av \in {availA, availB} : av = {"none"} \/ av \subseteq Actors
\* history generation: complete histories are printed once (simulation mode)
Emit == Len(hist) < Depth \/ PrintT("HISTORY " \o ToJson(hist))
\* fingerprint view without the history (BFS mode explores abstract states only)
View == <<tourA, tourB, availA, availB, knownB, Len(hist)>>
=============================================================================
