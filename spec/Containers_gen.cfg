SPECIFICATION Spec
CONSTANTS
  Closed = TRUE
  Depth = 14
INVARIANT TourWellFormed
INVARIANT RegistryWellFormed
INVARIANT Emit
CHECK_DEADLOCK FALSE
