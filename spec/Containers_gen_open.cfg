SPECIFICATION Spec
CONSTANTS
  Closed = FALSE
  Depth = 14
INVARIANT TourWellFormed
INVARIANT RegistryWellFormed
INVARIANT Emit
CHECK_DEADLOCK FALSE
