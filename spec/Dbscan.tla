------------------------------- MODULE Dbscan -------------------------------
(***************************************************************************)
(* Step-level model of create_clusters (algorithms/clustering/dbscan.rs):  *)
(* one action per branch of the outer loop and of the expansion loop.      *)
(* MC_Dbscan*.cfg check the contract of Algo.tla in every terminal state   *)
(* and termination; EmitAlgo prints the terminal states as replay cases.   *)
(***************************************************************************)
EXTENDS Algo
(***************** step-level model of create_clusters *********************)
\* state: order (input order), nb, minPts; types [point -> "none"|"noise"|"clustered"]; clusters; i (outer index);
\* queue / qset / qi (the growing neighbour list of the cluster under expansion, its index set, the cursor); phase
CONSTANTS DbN, DbAllOrders
VARIABLES order, nb, minPts, types, clusters, oi, queue, qset, qi, phase
dbvars == <<order, nb, minPts, types, clusters, oi, queue, qset, qi, phase>>
DbPoints == 1..DbN
DbInit ==
  /\ order \in IF DbAllOrders THEN { s \in [DbPoints -> DbPoints] : \A a, b \in DbPoints : a # b => s[a] # s[b] }
               ELSE { [p \in DbPoints |-> p] }
  /\ nb \in [DbPoints -> SUBSET DbPoints]
  /\ minPts \in 1..3
  /\ types = [p \in DbPoints |-> "none"]
  /\ clusters = <<>> /\ oi = 1 /\ queue = <<>> /\ qset = {} /\ qi = 0 /\ phase = "outer"
\* neighbour lists are iterated in ascending order (any fixed order would do; the contract does not depend on it)
DbNbSeq(p) == SetToSortSeq(nb[p], <)
\* outer loop: take the next point; skip if typed, mark noise, or open a cluster
DbOuterSkip == phase = "outer" /\ oi <= DbN /\ types[order[oi]] # "none" /\ oi' = oi + 1
               /\ UNCHANGED <<order, nb, minPts, types, clusters, queue, qset, qi, phase>>
DbOuterNoise == phase = "outer" /\ oi <= DbN /\ types[order[oi]] = "none" /\ Cardinality(nb[order[oi]]) < minPts
                /\ types' = [types EXCEPT ![order[oi]] = "noise"] /\ oi' = oi + 1
                /\ UNCHANGED <<order, nb, minPts, clusters, queue, qset, qi, phase>>
DbOuterSeed == phase = "outer" /\ oi <= DbN /\ types[order[oi]] = "none" /\ Cardinality(nb[order[oi]]) >= minPts
               /\ types' = [types EXCEPT ![order[oi]] = "clustered"]
               /\ clusters' = Append(clusters, <<order[oi]>>)
               /\ queue' = DbNbSeq(order[oi]) /\ qset' = nb[order[oi]] /\ qi' = 1 /\ phase' = "expand"
               /\ UNCHANGED <<order, nb, minPts, oi>>
\* expansion: look at queue[qi]; an untyped core point appends its unseen neighbours; an unclustered point joins
DbExpand == phase = "expand" /\ qi <= Len(queue) /\
  LET p == queue[qi]
      grow == types[p] = "none" /\ Cardinality(nb[p]) >= minPts
      more == SelectSeq(DbNbSeq(p), LAMBDA q : q \notin qset) IN
  /\ queue' = IF grow THEN queue \o more ELSE queue
  /\ qset' = IF grow THEN qset \cup nb[p] ELSE qset
  /\ IF types[p] = "clustered" THEN UNCHANGED <<types, clusters>>
     ELSE /\ types' = [types EXCEPT ![p] = "clustered"]
          /\ clusters' = [clusters EXCEPT ![Len(clusters)] = Append(@, p)]
  /\ qi' = qi + 1
  /\ UNCHANGED <<order, nb, minPts, oi, phase>>
DbClose == phase = "expand" /\ qi > Len(queue) /\ phase' = "outer" /\ oi' = oi + 1
           /\ UNCHANGED <<order, nb, minPts, types, clusters, queue, qset, qi>>
DbDone == phase = "outer" /\ oi > DbN
DbNext == DbOuterSkip \/ DbOuterNoise \/ DbOuterSeed \/ DbExpand \/ DbClose \/ (DbDone /\ UNCHANGED dbvars)
DbSpec == DbInit /\ [][DbNext]_dbvars /\ WF_dbvars(DbNext)
\* the contract at termination; two step invariants that hold throughout
DbContractAtEnd == DbDone =>
  /\ A_DbDisjoint(clusters)
  /\ A_DbGrown(nb, minPts, clusters)
  /\ A_DbCoreClustered(nb, minPts, order, clusters)
DbTypesMatchClusters == \A p \in DbPoints : (types[p] = "clustered") <=> (\E k \in 1..Len(clusters) : p \in A_Range(clusters[k]))
DbNoiseIsNotCore == \A p \in DbPoints : types[p] = "noise" => ~A_Core(nb, minPts, p)
DbSeedIsCore == \A k \in 1..Len(clusters) : A_Core(nb, minPts, clusters[k][1])
DbTerminates == <>[]DbDone
=============================================================================
