------------------------------- MODULE EmitAlgo -------------------------------
(* Spec -> implementation: every terminal state of the density-clustering model (Dbscan!DbSpec) is printed as one replay case:
   the input (order, neighbourhoods, minPts) and the model's clusters. *)
EXTENDS Dbscan, Json
DbEmit == DbDone => PrintT("DBCASE " \o ToJson([order |-> order, nb |-> [p \in DbPoints |-> SetToSortSeq(nb[p], <)],
                                                minPts |-> minPts, clusters |-> clusters]))
=============================================================================
