SPECIFICATION DbSpec
CONSTANTS
  DbN = 3
  DbAllOrders = TRUE
INVARIANTS DbEmit DbContractAtEnd DbTypesMatchClusters DbNoiseIsNotCore DbSeedIsCore
CHECK_DEADLOCK FALSE
