INIT Init
NEXT Next
CONSTANTS
  Rewards = {0}
  MaxN = 4
CHECK_DEADLOCK FALSE
