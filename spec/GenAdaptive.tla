------------------------------ MODULE GenAdaptive ------------------------------
(* C18 cases: reward histories for the slot machine (exact integer stratum with the model's expectation; palette stratum by index
   into a table of floats from 0 and a denormal up to 1e9 kept by the harness), windows of fitness vectors for the variation
   criterion with the model's verdict per generation, and generation counters for the progress estimates. *)
EXTENDS Adaptive, Json, IOUtils
Thorough == IOEnv.TIER = "thorough"
Seed == atoi(IOEnv.SEED) % 100000
Hash(c, i, mod) == (((c + Seed) * 7919 + i * 10473 + (i % 50) * (c % 1000) * 613 + (c % 97) * (i % 50) * 313) % 10007) % mod
ExactHist == UNION { [1..k -> {0, 1, 2, 5}] : k \in 1..4 }
ExactCases == { [kind |-> "slot-exact", rewards |-> h, exp |-> A_Expected(h)] : h \in ExactHist }
\* palette indices 1..11 (the harness holds the floats)
PaletteCases == { [kind |-> "slot-palette", rewards |-> [i \in 1..(3 + (c % 10)) |-> 1 + Hash(c, i, 11)]] : c \in 1..(IF Thorough THEN 5000 ELSE 600) }
\* variation criterion: 1-2 objectives, values 0..6, window 2-3, histories of 5 generations, thresholds 1/10, 1/2, 1/1
FitVals == {0, 3, 4, 6}
MinVarCase(c) ==
  LET objs == 1 + (c % 2) sample == 2 + (c % 2) len == 5
      fits == [g \in 1..len |-> [o \in 1..objs |-> (CHOOSE v \in FitVals : Cardinality({ w \in FitVals : w < v }) = Hash(c, g * 3 + o, 4))]]
      th == IF c % 3 = 0 THEN <<1, 10>> ELSE IF c % 3 = 1 THEN <<1, 2>> ELSE <<1, 1>>
      global == (c % 5) < 3
      \* phases move forward only: the switch to exploration / exploitation happens at generations e1 <= e2 (1-based; beyond len = never)
      e1 == 1 + Hash(c, 91, 4) e2 == e1 + Hash(c, 92, 4)
      phases == [g \in 1..len |-> IF g < e1 THEN "initial" ELSE IF g < e2 THEN "exploration" ELSE "exploitation"] IN
  [kind |-> "minvar", sample |-> sample, tn |-> th[1], td |-> th[2], fits |-> fits, global |-> global, phases |-> phases,
   exp |-> [g \in 1..len |-> A_MinVariationFires(fits, sample, g - 1, th[1], th[2], global, phases)],
   tie |-> [g \in 1..len |-> A_MinVariationTie(fits, sample, g - 1, th[1], th[2])]]
MinVarCases == { MinVarCase(c) : c \in 1..(IF Thorough THEN 6000 ELSE 800) }
EstimateCases == { [kind |-> "estimate", limit |-> lim, gens |-> <<0, 1, lim - 1, lim, lim + 1, 10 * lim, 1000000>>] : lim \in {1, 2, 7, 1000} }
                 \cup { [kind |-> "estimate", limit |-> 0, gens |-> <<0, 1, 5>>] }          \* a limit of 0 generations is reached at once
\* target proximity: fires when the relative distance between the target and the best fitness is below the threshold
ProxMags == <<0 - 4, 0 - 2, 0 - 1, 0, 1, 2, 4>>
ProxCases == { [kind |-> "proximity", target |-> [i \in 1..d |-> ProxMags[1 + Hash(c, i, 7)]], best |-> [i \in 1..d |-> ProxMags[1 + Hash(c, 20 + i, 7)]],
                tn |-> th[1], td |-> th[2]] : d \in 1..2, c \in 1..(IF Thorough THEN 400 ELSE 80), th \in { <<1, 10>>, <<1, 2>>, <<1, 1>>, <<3, 2>> } }
\* composite of generation limits: fires with the first, estimate = the largest of the parts
CompositeCases == { [kind |-> "composite", limits |-> SetToSeq(ls), gens |-> <<0, 1, 2, 6, 7, 8, 1000>>] : ls \in SUBSET {0, 1, 2, 7} }
MaxTimeCases == { [kind |-> "maxtime", limitMs |-> ms] : ms \in {0, 1, 10, 3600000} }
\* the adaptive selector over a scalar test problem: 1-5 recording operators of different temper, 40 / 200 / 1000 searches
DynCases == { [kind |-> "dyn", ops |-> m, steps |-> st, mode |-> md] : m \in 1..5, st \in (IF Thorough THEN {40, 200, 1000} ELSE {40, 200}), md \in 0..3 }
Cases == LET all == SetToSeq(ExactCases) \o SetToSeq(PaletteCases) \o SetToSeq(MinVarCases) \o SetToSeq(EstimateCases) \o SetToSeq(ProxCases) \o SetToSeq(CompositeCases) \o SetToSeq(MaxTimeCases) \o SetToSeq(DynCases) IN [i \in 1..Len(all) |-> [c |-> i, case |-> all[i]]]
ASSUME ndJsonSerialize(IOEnv.OUTFILE, Cases)
ASSUME PrintT("GENERATED " \o ToString(Len(Cases)))
VARIABLE x
Init == x = 0 /\ AInit
Next == UNCHANGED <<x, n, S, B24, lo, hi, hist>>
=============================================================================
