INIT Init
NEXT Next
