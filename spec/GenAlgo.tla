------------------------------- MODULE GenAlgo -------------------------------
(* C17 inputs. Exhaustive small strata (every symmetric cost matrix over a small alphabet, every point multiset on a small
   line / grid, including ties, duplicates and collinear points) and a pseudo-random larger stratum computed by TLC
   from the run's seed.  The density-clustering cases are not generated here: they are the terminal states of Dbscan!DbSpec. *)
EXTENDS Naturals, Integers, Sequences, SequencesExt, FiniteSets, FiniteSetsExt, TLC, Json, IOUtils
Thorough == IOEnv.TIER = "thorough"
Abs(x) == IF x < 0 THEN 0 - x ELSE x
Pairs(n) == { <<i, j>> \in (1..n) \X (1..n) : i < j }
MatOf(n, f) == [i \in 1..n |-> [j \in 1..n |-> IF i = j THEN 0 ELSE IF i < j THEN f[<<i, j>>] ELSE f[<<j, i>>]]]
AllMats(n, costs) == { MatOf(n, f) : f \in [Pairs(n) -> costs] }
\* pseudo-random draws are a deterministic hash of (seed, case, indices): TLC's RandomElement inside a lazily evaluated
\* function yields a different value at every application, so a "symmetric" matrix built from it is not symmetric
Seed == atoi(IOEnv.SEED) % 100000
Hash(c, i, j, mod) == (((c + Seed) * 7919 + i * 104729 + j * 1299709 + i * j * 611953 + (c % 97) * i * 31337) % 10007) % mod
RandMat(c, n, mod) == [i \in 1..n |-> [j \in 1..n |-> IF i = j THEN 0 ELSE IF i < j THEN Hash(c, i, j, mod) ELSE Hash(c, j, i, mod)]]
Identity(n) == [i \in 1..n |-> i]
\* neighbour lists as the caller builds them: all other nodes by ascending cost (ties by node), optionally the k nearest only
NbSorted(m, n, i, k) == LET all == SortSeq(SetToSeq((1..n) \ {i}), LAMBDA a, b : m[i][a] < m[i][b] \/ (m[i][a] = m[i][b] /\ a < b)) IN
                        SubSeq(all, 1, IF k < Len(all) THEN k ELSE Len(all))
LkhCase(tag, m, n, p, k) == [kind |-> "lkh", tag |-> tag, n |-> n, m |-> m, path |-> p, nbs |-> [i \in 1..n |-> NbSorted(m, n, i, k)]]
LkhExhaustive ==
     { LkhCase("n3", m, 3, p, 9) : m \in AllMats(3, {0, 1, 2}), p \in { <<1, 2, 3>>, <<2, 1, 3>> } }
  \cup { LkhCase("n4", m, 4, p, 9) : m \in AllMats(4, {0, 1, 2, 3}), p \in { <<1, 2, 3, 4>>, <<3, 1, 4, 2>> } }
  \cup { LkhCase("n5", m, 5, p, 9) : m \in AllMats(5, IF Thorough THEN {1, 2, 3} ELSE {1, 2}), p \in { <<1, 2, 3, 4, 5>> } }
  \cup { LkhCase("n5k2", m, 5, <<2, 4, 1, 5, 3>>, 2) : m \in AllMats(5, {1, 3}) }
  \cup { LkhCase("tiny", m, n, Identity(n), 9) : n \in {1, 2}, m \in AllMats(2, {0, 1}) }
\* the random stratum: n 6..9, costs 0..9 (duplicates = cost 0), on a line (collinear) or arbitrary symmetric
LineMat(n, xs) == [i \in 1..n |-> [j \in 1..n |-> Abs(xs[i] - xs[j])]]
LkhRandom(count) ==
  { LET n == 6 + (c % 4)
        m == IF c % 3 = 0 THEN LineMat(n, [i \in 1..n |-> Hash(c, i, 0, 10)]) ELSE RandMat(c, n, 10) IN
    LkhCase("rand" \o ToString(c), m, n, Identity(n), IF c % 5 = 0 THEN 3 ELSE 9) : c \in 1..count }
\* Euclidean stratum: integer grid points, the harness takes the (irrational, floating point) Euclidean distance
LkhGeo(count) ==
  { LET n == 5 + (c % 12)
        raw == [i \in 1..n |-> <<Hash(c, i, 1, 10), Hash(c, i, 2, 10)>>]
        \* every other case: the nodes share 4 addresses (many zero-cost edges and exact ties); else the first point is repeated twice
        pts == IF c % 2 = 0 THEN [i \in 1..n |-> raw[1 + (Hash(c, i, 3, 97) % 4)]]
               ELSE IF c % 4 = 1 THEN [i \in 1..n |-> IF i > n - 2 THEN raw[1] ELSE raw[i]] ELSE raw
        \* the harness multiplies the coordinates by the scale: the rounding residue of a gain grows with the magnitude of the costs
        scale == IF c % 3 = 0 THEN 1 ELSE IF c % 3 = 1 THEN 1000 ELSE 100000 IN
    [kind |-> "lkhgeo", tag |-> "geo" \o ToString(c), n |-> n, pts |-> pts, scale |-> scale, path |-> Identity(n)] : c \in 1..count }
\* ---- k-medoids: points are 1..n, the distance is given as a matrix
GridMat(n, ps) == [i \in 1..n |-> [j \in 1..n |-> (ps[i][1] - ps[j][1]) * (ps[i][1] - ps[j][1]) + (ps[i][2] - ps[j][2]) * (ps[i][2] - ps[j][2])]]
KmCase(tag, d, n, k) == [kind |-> "km", tag |-> tag, n |-> n, d |-> d, k |-> k]
HierCase(tag, d, n, t) == [kind |-> "hier", tag |-> tag, n |-> n, d |-> d, tiers |-> t]
Min2(a, b) == IF a < b THEN a ELSE b
LineSets == UNION { { LineMat(n, xs) : xs \in [1..n -> 0..4] } : n \in 1..(IF Thorough THEN 5 ELSE 4) }
GridSets == LET G == (0..2) \X (0..2) n == IF Thorough THEN 4 ELSE 3 IN { GridMat(n, ps) : ps \in [1..n -> G] }
AnySets == AllMats(4, {1, 2, 3})
KmMats == LineSets \cup GridSets \cup AnySets
KmExhaustive == { KmCase("ex", d, Len(d), k) : d \in KmMats, k \in 1..3 }
HierExhaustive == { HierCase("ex", d, Len(d), t) : d \in KmMats, t \in 1..3 }
KmRandom(count) ==
  UNION { LET n == 6 + (c % 6)
              d == IF c % 2 = 0 THEN GridMat(n, [i \in 1..n |-> <<Hash(c, i, 1, 6), Hash(c, i, 2, 6)>>]) ELSE RandMat(c, n, 9) IN
          { KmCase("rand" \o ToString(c), d, n, 2 + (c % 4)), HierCase("rand" \o ToString(c), d, n, 1 + (c % 4)) } : c \in 1..count }
KmValid(c) == c.kind = "hier" \/ c.k <= c.n
Cases == SetToSeq(LkhExhaustive) \o SetToSeq(LkhRandom(IF Thorough THEN 5000 ELSE 400)) \o SetToSeq(LkhGeo(IF Thorough THEN 30000 ELSE 3000))
         \o SetToSeq({ c \in KmExhaustive : KmValid(c) }) \o SetToSeq(HierExhaustive) \o SetToSeq(KmRandom(IF Thorough THEN 2000 ELSE 200))
ASSUME ndJsonSerialize(IOEnv.OUTFILE, Cases)
ASSUME PrintT("GENERATED " \o ToString(Len(Cases)))
VARIABLE x
Init == x = 0
Next == UNCHANGED x
=============================================================================
