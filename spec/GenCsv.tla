-------------------------------- MODULE GenCsv --------------------------------
(* C11 CSV tables: job rows over a small palette (repeated ids = multi-task jobs, all three demand signs, optional windows) and
   1-2 vehicle rows (same / different profiles, amounts 1-2). Coordinates are small integers (printed as decimals). *)
EXTENDS RoundTrip, Json, IOUtils
Thorough == IOEnv.TIER = "thorough"
JRow(id, p, demand, dur, tw) == [id |-> id, lat |-> p[1], lng |-> p[2], demand |-> demand, dur |-> dur, tw |-> tw]
JobPalette == { JRow(id, p, d, dur, tw) : id \in {"a", "b"}, p \in { <<1, 2>>, <<3, 1>> }, d \in {0 - 1, 0, 1}, dur \in {0, 5}, tw \in { <<>>, <<8, 12>> } }
JobTables == UNION { [1..n -> JobPalette] : n \in 1..2 } \cup (IF Thorough THEN [1..3 -> { r \in JobPalette : r.dur = 5 }] ELSE [1..3 -> { r \in JobPalette : r.dur = 5 /\ r.tw = <<>> /\ r.lat = 1 }])
VRow(id, amount, profile, cap) == [id |-> id, lat |-> 0, lng |-> 0, cap |-> cap, s |-> 6, e |-> 20, amount |-> amount, profile |-> profile]
VehicleTables == { << VRow("v1", a, "car", 5) >> : a \in {1, 2} }
                 \cup { << VRow("v1", a, "car", 5), VRow("v2", b, p, 9) >> : a, b \in {1, 2}, p \in {"car", "truck"} }
Cases == LET all == SetToSeq({ [jobs |-> j, vehicles |-> v] : j \in JobTables, v \in VehicleTables }) IN [i \in 1..Len(all) |-> [c |-> i, jobs |-> all[i].jobs, vehicles |-> all[i].vehicles]]
\* vacuity: most tables are well formed (unbalanced pickup / delivery rows are kept to see that the data is still carried)
ASSUME \E i \in 1..Len(Cases) : RT_TablesWellFormed(Cases[i].jobs, Cases[i].vehicles)
ASSUME \E i \in 1..Len(Cases) : ~RT_TablesWellFormed(Cases[i].jobs, Cases[i].vehicles)
ASSUME ndJsonSerialize(IOEnv.OUTFILE, Cases)
ASSUME PrintT("GENERATED " \o ToString(Len(Cases)))
VARIABLE x
Init == x = 0
Next == UNCHANGED x
=============================================================================
