-------------------------------- MODULE GenGsom --------------------------------
(* C19 scenarios: network configurations x input stream kinds x operation scripts.  The harness draws the numbers of a stream from
   its kind and the scenario's seed; the operation script says after how many batches the map is smoothed / compacted. *)
EXTENDS Naturals, Integers, Sequences, SequencesExt, FiniteSets, TLC, Json, IOUtils
Thorough == IOEnv.TIER = "thorough"
Streams == {"uniform", "clustered", "duplicated", "outliers", "constant", "line", "growing-scale"}
Configs == { [spread |-> sp, distribution |-> df, nodeSize |-> ns, rebalanceMemory |-> rm, dim |-> dim, initial |-> init] :
             sp \in {25, 75, 90}, df \in {25, 90}, ns \in {1, 2, 5}, rm \in {10, 100}, dim \in {1, 3}, init \in {4, 16} }
\* scripts: sequences of operations; b = store_batch of 1-8 inputs, s = smooth, c = compact
Scripts == { <<"b", "b", "c", "b", "s", "c", "b", "b", "c">>, <<"b", "s", "b", "s", "b", "c", "c">>, <<"c", "b", "b", "b", "b", "c", "s", "b", "c">>,
             <<"b", "b", "b", "b", "b", "b", "c", "b", "b", "b", "c", "s", "c">> }
Scenarios == { [cfg |-> c, stream |-> s, script |-> sc, rounds |-> (IF Thorough THEN 12 ELSE 4)] : c \in Configs, s \in Streams, sc \in Scripts }
Keep == IF Thorough THEN 1 ELSE 7
Cases == LET all == SetToSeq(Scenarios) IN [i \in 1..(Len(all) \div Keep) |-> [c |-> i, sc |-> all[i * Keep]]]
ASSUME ndJsonSerialize(IOEnv.OUTFILE, Cases)
ASSUME PrintT("GENERATED " \o ToString(Len(Cases)))
VARIABLE x
Init == x = 0
Next == UNCHANGED x
=============================================================================
