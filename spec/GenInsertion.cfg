INIT Init
NEXT Next
