---------------------------- MODULE GenInsertion ----------------------------
(* G binding of C06 / C20: enumerates, per world, every well-formed tour of at most MaxLen activities that brute-force     *)
(* simulation finds feasible, paired with every palette job that is not in it, and writes the cases (and the worlds, so    *)
(* that the harness builds the very same problem) as ndjson.  Expected observations are NOT shipped: the harness reports   *)
(* what the real evaluator did and JudgeInsertion.tla decides it against the definitions of Insertion.tla.                *)
EXTENDS InsertionWorlds
MaxLen == atoi(IOEnv.MAXLEN)
WorldSet == { w \in 1..Len(Worlds) : IOEnv.WORLDS = "all" \/ ToString(w) = IOEnv.WORLDS }
Acts(W) == UNION { IF W.jobs[j].kind = "pd"
                   THEN { [j |-> j, part |-> pt, w |-> w] : pt \in {1, 2}, w \in 1..2 }
                   ELSE { [j |-> j, part |-> 0, w |-> w] : w \in 1..2 } : j \in 1..Len(W.jobs) }
ValidAct(W, a) == a.w \in I_Windows(W, a.j, a.part)
VActs(W) == { a \in Acts(W) : ValidAct(W, a) }
RECURSIVE ToursOfLen(_, _)
ToursOfLen(W, n) == IF n = 0 THEN { <<>> }
                    ELSE { Append(t, a) : t \in ToursOfLen(W, n - 1), a \in VActs(W) }
\* prefixes must stay time feasible (a late arrival never heals), which prunes the enumeration
Tours(W) == { t \in UNION { ToursOfLen(W, n) : n \in 0..MaxLen } : I_WellFormed(W, t) /\ I_Sim(W, t) }
Cases == UNION { UNION { { [id |-> 0, w |-> wi, tour |-> t, j |-> j] : j \in { j \in 1..Len(Worlds[wi].jobs) : ~I_InTour(t, j) } }
                           : t \in Tours(Worlds[wi]) } : wi \in WorldSet }
CaseSeq == LET s == SetToSeq(Cases) IN [i \in 1..Len(s) |-> [s[i] EXCEPT !.id = i]]
ASSUME ndJsonSerialize(IOEnv.WORLDSFILE, Worlds)
ASSUME ndJsonSerialize(IOEnv.OUTFILE, CaseSeq)
ASSUME PrintT("GENERATED " \o ToString(Len(CaseSeq)))
VARIABLE x
Init == x = 0
Next == UNCHANGED x
=============================================================================
