-------------------------------- MODULE GenMath --------------------------------
(* C18 cases for the numeric helpers (MathUtil.tla): observation streams for the median estimator, integer samples for the
   statistics, vectors for the relative distance, weights / ranges / probabilities / ties for the random helpers, sizes for the
   sampling iterators and the sampling search, and noise settings.  Small domains are enumerated, larger ones drawn by a hash. *)
EXTENDS MathUtil, Json, IOUtils
Thorough == IOEnv.TIER = "thorough"
Seed == atoi(IOEnv.SEED) % 100000
Hash(c, i, mod) == (((c + Seed) * 7919 + i * 10473 + (i % 50) * (c % 1000) * 613 + (c % 97) * (i % 50) * 313) % 10007) % mod
MinOf(a, b) == IF a < b THEN a ELSE b
Lens == <<6, 10, 18, 30>>
RemCase(c) == LET b == 1 + (c % 5) e == 1 + ((c \div 5) % 3) len == MinOf(M_RCapacity(b, e) + 2, Lens[1 + ((c \div 15) % 4)]) IN
  [kind |-> "remedian", base |-> b, exp |-> e, xs |-> [i \in 1..len |-> Hash(c, i, 7)]]
RemCases == { RemCase(c) : c \in 1..(IF Thorough THEN 3000 ELSE 360) }
StatVals == 0..6
StatCases == { [kind |-> "stats", xs |-> xs] : xs \in UNION { [1..k -> StatVals] : k \in 0..3 } }
             \cup { [kind |-> "stats", xs |-> [i \in 1..4 |-> Hash(c, i, 7)]] : c \in 1..(IF Thorough THEN 2000 ELSE 200) }
Mags == {0 - 4, 0 - 2, 0 - 1, 0, 1, 2, 4}
MagSeq == <<0 - 4, 0 - 2, 0 - 1, 0, 1, 2, 4>>
RelCases == { [kind |-> "reldist", a |-> a, b |-> b] : a, b \in [1..1 -> Mags] }
            \cup { [kind |-> "reldist", a |-> [i \in 1..d |-> MagSeq[1 + Hash(c, i, 7)]], b |-> [i \in 1..d |-> MagSeq[1 + Hash(c, 10 + i, 7)]]] :
                   d \in 2..3, c \in 1..(IF Thorough THEN 2000 ELSE 250) }
WeightCases == { [kind |-> "weighted", weights |-> w] : w \in { x \in UNION { [1..k -> 0..3] : k \in 1..(IF Thorough THEN 4 ELSE 3) } : \E i \in DOMAIN x : x[i] > 0 } }
UniCases == { [kind |-> "uniform", min |-> a, max |-> a + w] : a \in {0 - 2, 0, 3}, w \in 0..3 }
HitCases == { [kind |-> "hit", p10 |-> p] : p \in {0 - 5, 0, 5, 10, 15} }
ArgCases == { [kind |-> "argmax", values |-> v] : v \in UNION { [1..k -> {0 - 1, 0, 2}] : k \in 0..4 } }
SampCases == { [kind |-> "sampling", n |-> n, amount |-> a] : n \in 0..8, a \in 1..9 }
RangeCases == { [kind |-> "range", n |-> n, size |-> s] : n \in 0..11, s \in 1..4 }
SearchCases == { [kind |-> "search", size |-> s, data |-> [i \in 1..n |-> Hash(n * 7 + s + v, i, 50)]] : n \in {0, 1, 2, 3, 5, 8, 13, 21, 40, 100}, s \in 0..5, v \in 1..(IF Thorough THEN 20 ELSE 3) }
NoiseCases == { [kind |-> "noise", p10 |-> p, lo10 |-> r[1], hi10 |-> r[2], value |-> v, addition |-> ad] :
                p \in {0, 10}, r \in { <<0 - 2, 2>>, <<5, 15>>, <<3, 3>> }, v \in {0 - 20, 0, 7, 1000}, ad \in BOOLEAN }
Cases == LET all == SetToSeq(RemCases) \o SetToSeq(StatCases) \o SetToSeq(RelCases) \o SetToSeq(WeightCases) \o SetToSeq(UniCases) \o SetToSeq(HitCases)
                    \o SetToSeq(ArgCases) \o SetToSeq(SampCases) \o SetToSeq(RangeCases) \o SetToSeq(SearchCases) \o SetToSeq(NoiseCases)
         IN [i \in 1..Len(all) |-> [c |-> i, case |-> all[i]]]
ASSUME ndJsonSerialize(IOEnv.OUTFILE, Cases)
ASSUME PrintT("GENERATED " \o ToString(Len(Cases)))
VARIABLE x
Init == x = 0
Next == UNCHANGED x
=============================================================================
