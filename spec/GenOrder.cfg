INIT Init
NEXT Next
