------------------------------- MODULE GenOrder -------------------------------
(* C09: (1) the laws the statement demands are checked on the model for every pair / triple of the domain (ASSUME = exhaustive  *)
(* constant-level model check); (2) every pair with the model's answer is written out for replay into InsertionCost and Goal.  *)
EXTENDS Order, Json, IOUtils
MaxLen == atoi(IOEnv.MAXLEN)
Fin == { O_Num(0 - 2, FALSE), O_Num(0 - 1, FALSE), O_NZ, O_PZ, O_Num(1, FALSE), O_Num(2, FALSE) }
All == Fin \cup { O_NInf, O_PInf, O_PMax }
\* all vectors over S of length exactly n / at most n
RECURSIVE VecsN(_, _)
VecsN(S, n) == IF n = 0 THEN { <<>> } ELSE { Append(v, x) : v \in VecsN(S, n - 1), x \in S }
Vecs(S, n) == UNION { VecsN(S, k) : k \in 0..n }
CmpDom == Vecs(All, IF MaxLen > 2 THEN 2 ELSE MaxLen) \cup Vecs(Fin, MaxLen)
AlgDom == Vecs(Fin, MaxLen)
LawDom == Vecs({ O_NInf, O_Num(0 - 1, FALSE), O_NZ, O_PZ, O_Num(1, FALSE), O_PMax }, 2)
\* --- laws on the model: total order of insertion costs, inverse of + and -
ASSUME \A x \in LawDom : O_CmpCost(x, x) = 0
ASSUME \A x, y \in LawDom : O_CmpCost(x, y) = 0 - O_CmpCost(y, x)
ASSUME \A x, y, z \in LawDom : (O_CmpCost(x, y) <= 0 /\ O_CmpCost(y, z) <= 0) => O_CmpCost(x, z) <= 0
ASSUME \A x, y \in Vecs(Fin, 2) : O_SameValue(O_SubCost(O_AddCost(x, y), y), x)
\* --- laws on the model: goals
Shapes == { <<1>>, <<1, 1>>, <<1, 1, 1>>, <<2>>, <<1, 2>>, <<2, 1>>, <<1, 2, 1>> }
GoalNums(w) == IF w <= 2 THEN { O_Num(0 - 1, FALSE), O_NZ, O_PZ, O_Num(1, FALSE) } ELSE { O_NZ, O_PZ, O_Num(1, FALSE) }
Width(shape) == FoldLeft(LAMBDA a, b : a + b, 0, shape)
Sols(shape) == VecsN(GoalNums(Width(shape)), Width(shape))
SingleOnly(shape) == \A l \in 1..Len(shape) : shape[l] = 1
ASSUME \A sh \in Shapes : \A a \in Sols(sh) : O_CmpGoal(sh, a, a) = 0
ASSUME \A sh \in Shapes : \A a, b \in Sols(sh) : O_CmpGoal(sh, a, b) = 0 - O_CmpGoal(sh, b, a)
ASSUME \A sh \in { s \in Shapes : SingleOnly(s) } : \A a, b \in Sols(sh) : O_CmpGoal(sh, a, b) = O_LexFit(a, b, 1)
ASSUME \A sh \in { s \in Shapes : SingleOnly(s) /\ Len(s) <= 2 } : \A a, b, c \in Sols(sh) :
          (O_CmpGoal(sh, a, b) <= 0 /\ O_CmpGoal(sh, b, c) <= 0) => O_CmpGoal(sh, a, c) <= 0
\* --- cases for replay
Enc(x) == IF x.k = "fin" THEN [v |-> x.v, nz |-> x.nz, k |-> "fin"] ELSE [v |-> 0, nz |-> FALSE, k |-> x.k]
EncV(v) == [i \in 1..Len(v) |-> Enc(v[i])]
CostCases == { [kind |-> "cost", x |-> EncV(x), y |-> EncV(y), cmp |-> O_CmpCost(x, y),
                alg |-> x \in AlgDom /\ y \in AlgDom,
                sum |-> IF x \in AlgDom /\ y \in AlgDom THEN EncV(O_AddCost(x, y)) ELSE <<>>,
                diff |-> IF x \in AlgDom /\ y \in AlgDom THEN EncV(O_SubCost(x, y)) ELSE <<>>] : x \in CmpDom, y \in CmpDom }
GoalCases == UNION { { [kind |-> "goal", shape |-> sh, a |-> EncV(a), b |-> EncV(b), cmp |-> O_CmpGoal(sh, a, b)] : a \in Sols(sh), b \in Sols(sh) } : sh \in Shapes }
ASSUME ndJsonSerialize(IOEnv.OUTCOST, SetToSeq(CostCases))
ASSUME ndJsonSerialize(IOEnv.OUTGOAL, SetToSeq(GoalCases))
ASSUME PrintT("GENERATED " \o ToString(Cardinality(CostCases)) \o " " \o ToString(Cardinality(GoalCases)))
VARIABLE x
Init == x = 0
Next == UNCHANGED x
=============================================================================
