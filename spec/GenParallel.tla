----------------------------- MODULE GenParallel -----------------------------
(* C15 cases: per world (routing matrix, vehicle, job palette of InsertionWorlds) two feasible tours with disjoint jobs plus the
   remaining jobs; the harness evaluates all (route, job) pairs one by one and with evaluate_all under pools of 1..8 threads. *)
EXTENDS InsertionWorlds
Keep == atoi(IOEnv.KEEP)          \* every Keep-th case is kept
Acts(W) == UNION { IF W.jobs[j].kind = "pd"
                   THEN { [j |-> j, part |-> pt, w |-> w] : pt \in {1, 2}, w \in 1..2 }
                   ELSE { [j |-> j, part |-> 0, w |-> w] : w \in 1..2 } : j \in 1..Len(W.jobs) }
VActs(W) == { a \in Acts(W) : a.w \in I_Windows(W, a.j, a.part) }
RECURSIVE ToursOfLen(_, _)
ToursOfLen(W, n) == IF n = 0 THEN { <<>> } ELSE { Append(t, a) : t \in ToursOfLen(W, n - 1), a \in VActs(W) }
Tours(W) == { t \in UNION { ToursOfLen(W, n) : n \in 0..2 } : I_WellFormed(W, t) /\ I_Sim(W, t) }
JobsOf(t) == { t[i].j : i \in 1..Len(t) }
Pairs(W) == { <<t1, t2>> \in Tours(W) \X Tours(W) : JobsOf(t1) \cap JobsOf(t2) = {} /\ Len(t1) >= Len(t2) /\ Len(t1) + Len(t2) <= 3 }
CasesOf(wi) == LET W == Worlds[wi] ps == SetToSeq(Pairs(W)) IN
  { [w |-> wi, tours |-> <<ps[i][1], ps[i][2]>>,
     jobs |-> SetToSeq({ j \in 1..Len(W.jobs) : j \notin JobsOf(ps[i][1]) \cup JobsOf(ps[i][2]) })] : i \in { k \in 1..Len(ps) : k % Keep = 0 } }
CaseSeq == LET s == SetToSeq(UNION { CasesOf(wi) : wi \in 1..Len(Worlds) }) IN [i \in 1..Len(s) |-> [c |-> i, w |-> s[i].w, tours |-> s[i].tours, jobs |-> s[i].jobs]]
ASSUME ndJsonSerialize(IOEnv.WORLDSFILE, Worlds)
ASSUME ndJsonSerialize(IOEnv.OUTFILE, CaseSeq)
ASSUME PrintT("GENERATED " \o ToString(Len(CaseSeq)))
VARIABLE x
Init == x = 0
Next == UNCHANGED x
=============================================================================
