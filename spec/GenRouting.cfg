INIT Init
NEXT Next
