------------------------------ MODULE GenRouting ------------------------------
(* C16 cases: matrix sets with pairwise distinct entries (an index swap is observable), every query, the model's answer. *)
EXTENDS Routing, Json, IOUtils
\* entry = 1000 * matrix number + 100 * kind + 10 * from + to, so that every entry of a set is distinct
Mat(k, p, ts, n) == [index |-> p, ts |-> ts, n |-> n, nDur |-> n * n, nDist |-> n * n,
                     dur |-> [i \in 1..n |-> [j \in 1..n |-> IF i = j THEN 0 ELSE 1000 * k + 10 * i + j]],
                     dist |-> [i \in 1..n |-> [j \in 1..n |-> IF i = j THEN 0 ELSE 1000 * k + 500 + 10 * i + j]]]
\* the same with one pair flagged unreachable (negative duration and distance) in EVERY matrix of the set: it stays negative at any time
Unr(k, p, ts, n) == LET m == Mat(k, p, ts, n) IN
   [m EXCEPT !.dur = [i \in 1..n |-> [j \in 1..n |-> IF i = 1 /\ j = 2 THEN 0 - 1 ELSE m.dur[i][j]]],
             !.dist = [i \in 1..n |-> [j \in 1..n |-> IF i = 1 /\ j = 2 THEN 0 - 1 ELSE m.dist[i][j]]]]
Sizes == {1, 2, 3}
\* consistent sets: time agnostic with 1-2 profiles (in both orders), time series with 2-3 timestamps for 1-2 profiles
Good(n) == { << Mat(1, 0, 0 - 1, n) >>,
             << Mat(1, 0, 0 - 1, n), Mat(2, 1, 0 - 1, n) >>,
             << Mat(1, 1, 0 - 1, n), Mat(2, 0, 0 - 1, n) >>,
             << Mat(1, 0, 10, n), Mat(2, 0, 20, n) >>,
             << Mat(1, 0, 40, n), Mat(2, 0, 10, n), Mat(3, 0, 20, n) >>,
             << Mat(1, 0, 10, n), Mat(2, 1, 10, n), Mat(3, 0, 30, n), Mat(4, 1, 20, n) >> }
           \cup (IF n >= 2 THEN { << Unr(1, 0, 0 - 1, n) >>, << Unr(1, 0, 10, n), Unr(2, 0, 20, n) >>, << Unr(1, 0, 40, n), Unr(2, 0, 10, n), Unr(3, 0, 20, n) >> } ELSE {})
\* inconsistent sets
Bad(n) == { <<>>,
            << Mat(1, 0, 0 - 1, n), Mat(2, 0, 0 - 1, n) >>,                       \* duplicate profile without timestamps
            << Mat(1, 0, 0 - 1, n), Mat(2, 2, 0 - 1, n) >>,                       \* profile index gap
            << Mat(1, 0, 10, n), Mat(2, 0, 0 - 1, n) >>,                          \* timestamp missing in one matrix
            << Mat(1, 0, 10, n) >>,                                               \* time series of one matrix
            << Mat(1, 0, 10, n), Mat(2, 0, 20, n), Mat(3, 1, 10, n) >>,           \* second profile with a single matrix
            << Mat(1, 0, 0 - 1, n), Mat(2, 1, 0 - 1, n + 1) >>,                   \* different sizes
            << [Mat(1, 0, 0 - 1, n) EXCEPT !.nDist = n * n - 1] >> }              \* fewer distances than durations
Times == {0, 10, 15, 20, 25, 30, 40, 50}
Queries(M) == IF ~R_Build(M) THEN {} ELSE
  { [p |-> p, scale |-> sc, from |-> f, to |-> t, at |-> at, dur |-> R_Dur(M, p, sc, f, t, at), dist |-> R_Dist(M, p, f, t, at)] :
      p \in R_Profiles(M), sc \in {1, 2}, f \in 1..M[1].n, t \in 1..M[1].n, at \in (IF R_TimeAware(M) THEN Times ELSE {0}) }
Cases == { [m |-> M, ok |-> R_Build(M), queries |-> SetToSeq(Queries(M))] : M \in UNION { Good(n) \cup Bad(n) : n \in Sizes } }
\* vacuity guards on the model: both verdicts occur, interpolation really happens
ASSUME \E c \in Cases : c.ok
ASSUME \E c \in Cases : ~c.ok
ASSUME \A n \in Sizes : \A M \in Good(n) : R_Build(M)
ASSUME \A n \in Sizes : \A M \in Bad(n) : ~R_Build(M)
ASSUME \E c \in Cases : \E i \in 1..Len(c.queries) : c.queries[i].dur.den > 1
\* ---- the pragmatic layer: matrices carry profile NAMES, the fleet's profile list fixes the index; entries flagged in
\* errorCodes are unreachable and surface as negative values
Names == <<"car", "truck">>
PragMat(k, name, n, flagged) == [profile |-> name, n |-> n,
   dur |-> [i \in 1..n |-> [j \in 1..n |-> IF i = j THEN 0 ELSE 1000 * k + 10 * i + j]],
   dist |-> [i \in 1..n |-> [j \in 1..n |-> IF i = j THEN 0 ELSE 1000 * k + 500 + 10 * i + j]],
   err |-> [i \in 1..n |-> [j \in 1..n |-> IF <<i, j>> \in flagged THEN 1 ELSE 0]]]
PragSets == { << PragMat(1, "car", 3, {}), PragMat(2, "truck", 3, {}) >>,
              << PragMat(1, "truck", 3, {}), PragMat(2, "car", 3, {}) >>,
              << PragMat(1, "truck", 3, {<<1, 2>>, <<3, 1>>}), PragMat(2, "car", 3, {<<2, 3>>}) >> }
PragOf(M, name) == M[CHOOSE i \in 1..Len(M) : M[i].profile = name]
PragQueries(M) == { [vehicle |-> nm, scale |-> sc, from |-> f, to |-> t,
                     neg |-> PragOf(M, nm).err[f][t] = 1,
                     dur |-> PragOf(M, nm).dur[f][t] * sc, dist |-> PragOf(M, nm).dist[f][t]] :
                     nm \in {"car", "truck"}, sc \in {1, 2}, f \in 1..3, t \in 1..3 }
PragCases == { [m |-> M, queries |-> SetToSeq(PragQueries(M))] : M \in PragSets }
\* ---- coordinate approximation: points on a small grid (lat, lng in units the harness scales)
\* a point is <<a, b, m>>: grid cell (a, b) plus m steps of two hundred-thousandths of a degree (a few metres): different points, however close,
\* are different locations; equal points are one location
PointPalette == { <<0, 0, 0>>, <<0, 0, 1>>, <<0, 0, 2>>, <<1, 2, 0>>, <<3, 1, 0>>, <<3, 1, 1>>, <<5, 5, 0>> }
Points == UNION { [1..k -> PointPalette] : k \in 1..3 } \cup { << <<0, 0, 0>>, <<0, 0, 0>>, <<5, 5, 0>>, <<2, 7, 0>>, <<0, 0, 1>> >> }
ASSUME ndJsonSerialize(IOEnv.OUTFILE, SetToSeq(Cases))
ASSUME ndJsonSerialize(IOEnv.OUTPRAG, SetToSeq(PragCases))
ASSUME ndJsonSerialize(IOEnv.OUTAPPROX, SetToSeq({ [points |-> p] : p \in Points }))
ASSUME PrintT("GENERATED " \o ToString(Cardinality(Cases)))
VARIABLE x
Init == x = 0
Next == UNCHANGED x
=============================================================================
