------------------------------- MODULE GenSci -------------------------------
(* C13 instances: every combination of customers from small palettes (duplicate coordinates, negative coordinates sharing one component, a customer at the depot, zero demand,
   demand = capacity, point windows, zero / positive service) for the three grammars, rounded and unrounded distances. *)
EXTENDS Scientific, Json, IOUtils
Thorough == IOEnv.TIER = "thorough"
Node(id, x, y, d, s, e, svc, rel) == [id |-> id, x |-> x, y |-> y, d |-> d, s |-> s, e |-> e, svc |-> svc, rel |-> rel]
\* customer palette for Solomon: (x, y, demand, ready, due, service)
SolPalette == { <<3, 4, 1, 0, 100, 0>>, <<3, 4, 5, 10, 20, 10>>, <<6, 8, 0, 0, 100, 5>>, <<0, 0, 2, 0, 0, 0>>, <<1, 1, 3, 50, 60, 10>>, <<7, 1, 4, 0, 30, 2>>,
                <<0 - 3, 0 - 4, 2, 0, 100, 0>>, <<5, 0 - 4, 1, 0, 100, 3>> }
                \cup (IF Thorough THEN { <<2, 9, 6, 5, 90, 1>>, <<9, 9, 1, 95, 100, 0>> } ELSE {})
SolCusts(n) == { [i \in 1..n |-> Node(i, c[i][1], c[i][2], c[i][3], c[i][4], c[i][5], c[i][6], 0)] : c \in [1..n -> SolPalette] }
Solomon == { [fmt |-> "solomon", rounded |-> r, k |-> k, q |-> q, depot |-> Node(0, 0, 0, 0, 0, 100, 0, 0), custs |-> cs] :
             r \in BOOLEAN, k \in {1, 3}, q \in {5, 6}, cs \in UNION { SolCusts(n) : n \in 1..(IF Thorough THEN 3 ELSE 2) } }
           \cup { [fmt |-> "solomon", rounded |-> TRUE, k |-> 2, q |-> 5, depot |-> Node(0, 2, 2, 0, 5, 80, 0, 0), custs |-> cs] : cs \in SolCusts(3) }
\* TSPLIB: node numbers start at 1; the depot is node 1 or the last node; (x, y, demand)
TspPalette == { <<3, 4, 1>>, <<3, 4, 5>>, <<6, 8, 0>>, <<0, 0, 2>>, <<1, 1, 3>>, <<0 - 3, 0 - 4, 1>>, <<5, 0 - 4, 2>> }
TspCusts(n, first) == { [i \in 1..n |-> Node(first + i - 1, c[i][1], c[i][2], c[i][3], 0, Horizon, 0, 0)] : c \in [1..n -> TspPalette] }
Tsplib == UNION { { [fmt |-> "tsplib", rounded |-> r, k |-> n + 1, q |-> q, depot |-> Node(IF dfirst THEN 1 ELSE n + 1, 0, 0, 0, 0, Horizon, 0, 0), custs |-> cs] :
                    r \in BOOLEAN, q \in {5, 9}, cs \in TspCusts(n, IF dfirst THEN 2 ELSE 1) } : n \in 1..3, dfirst \in BOOLEAN }
\* Li&Lim: pairs (pickup, delivery); ids 1..2m in file order pickup1, delivery1, pickup2, ...; (x, y, ready, due, service)
LlPalette == { <<3, 4, 0, 100, 0>>, <<6, 8, 10, 40, 10>>, <<0, 0, 0, 100, 5>>, <<1, 1, 20, 90, 0>>, <<0 - 3, 0 - 4, 0, 100, 0>>, <<5, 0 - 4, 0, 100, 5>> }
LlPairs(m) == { [i \in 1..(2 * m) |-> LET pr == (i + 1) \div 2 pick == (i % 2 = 1) c == IF pick THEN ps[pr][1] ELSE ps[pr][2] IN
                   Node(i, c[1], c[2], IF pick THEN ps[pr][3] ELSE 0 - ps[pr][3], c[3], c[4], c[5], IF pick THEN i + 1 ELSE i - 1)] :
                ps \in [1..m -> LlPalette \X LlPalette \X {1, 3}] }
Lilim == { [fmt |-> "lilim", rounded |-> r, k |-> k, q |-> q, depot |-> Node(0, 0, 0, 0, 0, 100, 0, 0), custs |-> cs] :
           r \in BOOLEAN, k \in {2}, q \in {3, 4}, cs \in LlPairs(1) }
         \cup { [fmt |-> "lilim", rounded |-> TRUE, k |-> 2, q |-> 3, depot |-> Node(0, 0, 0, 0, 0, 100, 0, 0), custs |-> cs] :
                cs \in { x \in LlPairs(2) : Thorough \/ (x[1].x + x[3].x + x[2].s + x[4].svc) % 4 = 0 } }
Cases == LET all == SetToSeq(Solomon) \o SetToSeq(Tsplib) \o SetToSeq(Lilim) IN [i \in 1..Len(all) |-> [c |-> i, inst |-> all[i]]]
ASSUME ndJsonSerialize(IOEnv.OUTFILE, Cases)
ASSUME PrintT("GENERATED " \o ToString(Len(Cases)))
VARIABLE x
Init == x = 0
Next == UNCHANGED x
=============================================================================
