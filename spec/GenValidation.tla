---------------------------- MODULE GenValidation ----------------------------
(* C10 documents: a valid base document and, per rule family, every combination of the family's field values (the other
   families stay valid).  JudgeValidation evaluates the rules on every document. *)
EXTENDS Validation, Json, IOUtils
Thorough == IOEnv.TIER = "thorough"
W(s, e) == [n |-> 2, s |-> s, e |-> e]
Idx(v) == [k |-> "i", v |-> v]
Geo(v) == [k |-> "g", v |-> v]
Place(l, dur, has, ws) == [loc |-> l, dur |-> dur, hasTimes |-> has, ws |-> ws]
Task(kind, hasD, dem, places) == [kind |-> kind, hasDemand |-> hasD, demand |-> dem, hasOrder |-> FALSE, order |-> 0, places |-> places]
\* a valid task of the given kind at index location l
Plain(kind, l) == Task(kind, kind # "service", IF kind = "service" THEN <<>> ELSE <<1>>, <<Place(Idx(l), "pos", FALSE, <<>>)>>)
Job(id, tasks) == [id |-> id, hasValue |-> FALSE, value |-> 0, tasks |-> tasks]
Shift(earliest, hasEnd, endLatest) == [earliest |-> earliest, hasLatest |-> FALSE, latest |-> 0, hasEnd |-> hasEnd, endLatest |-> endLatest,
                                       hasBreaks |-> FALSE, breaks |-> <<>>, hasReloads |-> FALSE, reloads |-> <<>>, loc |-> Idx(0)]
Vehicle(typeId, ids, profile, shifts) == [typeId |-> typeId, ids |-> ids, profile |-> profile, costDist |-> 1, costTime |-> 1, shifts |-> shifts, cap |-> <<10>>]
Base == [jobs |-> << Job("job1", <<Plain("delivery", 1)>>), Job("job2", <<Plain("pickup", 2)>>) >>,
         vehicles |-> << Vehicle("vt1", <<"v1", "v2">>, "car", <<Shift(8, TRUE, 18)>>) >>,
         profiles |-> <<"car">>, hasResources |-> FALSE, resources |-> <<>>,
         hasRelations |-> FALSE, relations |-> <<>>, hasObjectives |-> FALSE, objectives |-> <<>>,
         matrices |-> << [size |-> 3] >>]
SeqsUpTo(S, n) == UNION { [1..k -> S] : k \in 0..n }

\* ---- E1103: windows of one place, for every kind of task
WinPalette == { W(8, 10), W(9, 11), W(10, 12), W(13, 14), W(10, 8), W(10, 10), W(0 - 1, 10), [n |-> 1, s |-> 8, e |-> 8], [n |-> 3, s |-> 8, e |-> 10] }
WinLists == SeqsUpTo(WinPalette, 2) \cup [1..3 -> (IF Thorough THEN WinPalette ELSE { W(8, 10), W(9, 11), W(13, 14), W(10, 8), W(15, 16) })]
FamWindows == { [Base EXCEPT !.jobs[1].tasks = << [Plain(kind, 1) EXCEPT !.places[1].hasTimes = TRUE, !.places[1].ws = ws] >>] :
                kind \in {"pickup", "delivery", "replacement", "service"}, ws \in WinLists }
\* ---- E1101 / E1102 / E1105 / E1107: one or two tasks of one job
DemPalette == { <<1>>, <<0>>, <<2>>, <<0 - 1>>, <<1, 1>>, <<1, 0 - 1>>, <<>> }
TaskPalette == { Task(kind, TRUE, dem, <<Place(Idx(1), "pos", FALSE, <<>>)>>) : kind \in {"pickup", "delivery", "replacement", "service"}, dem \in DemPalette }
               \cup { Task(kind, FALSE, <<>>, <<Place(Idx(1), "pos", FALSE, <<>>)>>) : kind \in {"pickup", "delivery", "replacement", "service"} }
FamDemand == { [Base EXCEPT !.jobs[1].tasks = ts] : ts \in SeqsUpTo(TaskPalette, 2) }
             \cup { [Base EXCEPT !.jobs[1].tasks = <<a, a, b>>] : a \in { t \in TaskPalette : t.kind = "pickup" /\ t.hasDemand }, b \in { t \in TaskPalette : t.kind = "delivery" } }
\* ---- E1100 / E1104: job ids
\* "recharge" and "dispatch" look like the reserved words but are not among the four the documentation reserves
IdPalette == {"job1", "job2", "departure", "arrival", "break", "reload", "recharge", "dispatch"}
FamIds == { [Base EXCEPT !.jobs[1].id = a, !.jobs[2].id = b] : a, b \in IdPalette }
\* ---- E1106: durations
FamDuration == { [Base EXCEPT !.jobs[1].tasks = << [Plain(kind, 1) EXCEPT !.places[1].dur = dur] >>] :
                 kind \in {"pickup", "delivery", "replacement", "service"}, dur \in {"pos", "zero", "neg", "negzero"} }
\* ---- E1300 / E1301 / E1306 / E1500 / E1501 / E1505: vehicle types and profiles
FamVehicles == { [Base EXCEPT !.vehicles = << [Vehicle(t1, ids1, p1, <<Shift(8, TRUE, 18)>>) EXCEPT !.costDist = cd, !.costTime = ct],
                                               Vehicle(t2, ids2, "car", <<Shift(8, TRUE, 18)>>) >>,
                               !.profiles = profs, !.matrices = [i \in 1..(IF profs = <<>> THEN 1 ELSE Len(profs)) |-> [size |-> 3]]] :
                 t1 \in {"vt1"}, t2 \in {"vt1", "vt2"}, ids1 \in { <<"v1">>, <<"v1", "v1">>, <<"v1", "v2">> }, ids2 \in { <<"v3">>, <<"v1">>, <<>> },
                 p1 \in {"car", "truck"}, cd \in {0, 1}, ct \in {0, 1},
                 profs \in { <<"car">>, <<"car", "car">>, <<>>, <<"car", "truck">>, <<"truck">> } }
\* ---- E1302: shift times (1-3 shifts of one vehicle type)
ShiftPalette == { Shift(8, TRUE, 18), Shift(8, TRUE, 8), Shift(18, TRUE, 8), Shift(0 - 1, TRUE, 18), Shift(8, TRUE, 0 - 1), Shift(8, FALSE, 0), Shift(19, TRUE, 23), Shift(12, TRUE, 20) }
FamShifts == { [Base EXCEPT !.vehicles[1].shifts = ss] : ss \in UNION { [1..k -> ShiftPalette] : k \in 1..(IF Thorough THEN 3 ELSE 2) }
                 \cup [1..3 -> { Shift(8, TRUE, 10), Shift(11, TRUE, 12), Shift(13, TRUE, 9), Shift(14, TRUE, 15) }] }
\* ---- E1303 / E1307: breaks of one shift
Brk(v, a, b, dur) == [v |-> v, a |-> a, b |-> b, dur |-> dur]
BreakPalette == { Brk("opt-tw", 10, 12, 1), Brk("opt-tw", 13, 14, 1), Brk("opt-tw", 11, 13, 1), Brk("opt-tw", 20, 22, 1), Brk("opt-tw", 17, 19, 1),
                  Brk("opt-tw", 12, 10, 1), Brk("opt-tw", 0 - 1, 12, 1), Brk("opt-tw", 18, 20, 1),
                  Brk("opt-off", 1, 2, 1), Brk("req-exact", 10, 11, 1), Brk("req-exact", 20, 21, 1), Brk("req-off", 1, 2, 1), Brk("req-off", 12, 13, 1) }
BreakLists == SeqsUpTo(BreakPalette, 2) \cup [1..3 -> (IF Thorough THEN BreakPalette ELSE { Brk("opt-tw", 10, 11, 1), Brk("opt-tw", 12, 13, 1), Brk("opt-tw", 15, 14, 1), Brk("opt-tw", 20, 22, 1) })]
BreakShifts == { Shift(8, TRUE, 18), Shift(8, FALSE, 0), Shift(0 - 1, TRUE, 18) }
FamBreaks == { [Base EXCEPT !.vehicles[1].shifts = << [s EXCEPT !.hasBreaks = TRUE, !.breaks = bs, !.hasLatest = lat[1], !.latest = lat[2]] >>] :
               s \in BreakShifts, bs \in BreakLists, lat \in { <<FALSE, 0>>, <<TRUE, 8>>, <<TRUE, 9>> } }
\* ---- E1304 / E1308: reloads and resources
Rld(has, ws, res) == [hasTimes |-> has, ws |-> ws, res |-> res]
ReloadPalette == { Rld(FALSE, <<>>, ""), Rld(TRUE, <<W(10, 12)>>, ""), Rld(TRUE, <<W(10, 12), W(11, 13)>>, "r1"), Rld(TRUE, <<W(20, 22)>>, ""),
                   Rld(TRUE, <<W(12, 10)>>, ""), Rld(TRUE, <<W(0 - 1, 10)>>, "r1"), Rld(TRUE, <<W(17, 19)>>, "r2"), Rld(FALSE, <<>>, "r1"), Rld(FALSE, <<>>, "r2"),
                   Rld(TRUE, <<W(9, 10), W(14, 12), W(15, 16)>>, ""), Rld(TRUE, <<>>, "") }
FamReloads == { [Base EXCEPT !.vehicles[1].shifts = << [Shift(8, TRUE, 18) EXCEPT !.hasReloads = TRUE, !.reloads = rs] >>,
                              !.hasResources = res[1], !.resources = res[2]] :
                rs \in SeqsUpTo(ReloadPalette, 2), res \in { <<FALSE, <<>>>>, <<TRUE, <<"r1">>>>, <<TRUE, <<"r1", "r1">>>>, <<TRUE, <<"r1", "r2">>>> } }
\* ---- E12xx: relations over a richer plan (job3: two tasks, job4: two windows, job5: two places) and two vehicle types
RelJobs == << Job("job1", <<Plain("delivery", 1)>>), Job("job2", <<Plain("pickup", 2)>>),
              Job("job3", <<Plain("pickup", 1), Plain("delivery", 2)>>),
              Job("job4", << [Plain("service", 1) EXCEPT !.places[1].hasTimes = TRUE, !.places[1].ws = <<W(8, 10), W(12, 14)>>] >>),
              Job("job5", << [Plain("service", 1) EXCEPT !.places = <<Place(Idx(1), "pos", FALSE, <<>>), Place(Idx(2), "pos", FALSE, <<>>)>>] >>),
              Job("job6", <<Plain("replacement", 2)>>),
              Job("job7", <<Plain("delivery", 1), Plain("replacement", 2)>>) >>
RelVehicles == << Vehicle("vt1", <<"v1">>, "car", <<Shift(8, TRUE, 18)>>),
                  Vehicle("vt2", <<"v2">>, "car", << [Shift(8, FALSE, 0) EXCEPT !.hasBreaks = TRUE, !.breaks = <<Brk("opt-tw", 10, 12, 1)>>],
                                                     [Shift(30, TRUE, 40) EXCEPT !.hasReloads = TRUE, !.reloads = <<>>, !.hasBreaks = TRUE] >>),
                  Vehicle("vt3", <<"v3">>, "car", << [Shift(8, TRUE, 18) EXCEPT !.hasBreaks = TRUE, !.breaks = <<Brk("req-exact", 10, 11, 1)>>] >>) >>
Rel(type, vehicle, sh, jobs) == [type |-> type, vehicle |-> vehicle, hasShift |-> sh[1], shift |-> sh[2], jobs |-> jobs]
RelJobLists == { <<"job1">>, <<"job1", "job2">>, <<>>, <<"departure">>, <<"departure", "job1", "arrival">>, <<"job1", "break">>, <<"reload", "job2">>,
                 <<"jobX">>, <<"job3">>, <<"job3", "job3">>, <<"job1", "job1">>, <<"job4">>, <<"job5", "job1">>, <<"break", "reload">>,
                 <<"job1", "recharge">>, <<"recharge">>, <<"dispatch", "job1">>, <<"job6">>, <<"job7">>, <<"job7", "job7">>, <<"job6", "job6">> }
RelSingles == { Rel(t, v, sh, js) : t \in {"any", "sequence", "strict"}, v \in {"v1", "v2", "v3", "vX"},
                                    sh \in { <<FALSE, 0>>, <<TRUE, 0>>, <<TRUE, 1>>, <<TRUE, 2>> }, js \in RelJobLists }
RelPairsOf == { Rel(t, v, <<FALSE, 0>>, js) : t \in {"any", "strict"}, v \in {"v1", "v2"}, js \in { <<"job1">>, <<"job2">>, <<"job1", "job2">>, <<"departure", "job1">> } }
FamRelations == { [Base EXCEPT !.jobs = RelJobs, !.vehicles = RelVehicles, !.hasRelations = TRUE, !.relations = rs] :
                  rs \in { <<r>> : r \in RelSingles } \cup { <<a, b>> : a, b \in RelPairsOf } \cup { <<>> } }
\* ---- E16xx: objectives x job values x task orders
Obj(type) == [type |-> type, inner |-> <<>>]
Multi(inner) == [type |-> "multi-objective", inner |-> inner]
ObjPalette == { Obj("minimize-unassigned"), Obj("minimize-cost"), Obj("minimize-distance"), Obj("maximize-value"), Obj("tour-order"), Obj("minimize-tours"),
                Multi(<<"minimize-cost", "minimize-tours">>), Multi(<<"maximize-value", "minimize-unassigned">>), Multi(<<"minimize-distance", "minimize-duration">>) }
ObjLists == SeqsUpTo(ObjPalette, 2) \cup [1..3 -> (IF Thorough THEN ObjPalette ELSE { Obj("minimize-unassigned"), Obj("minimize-cost"), Obj("maximize-value"), Obj("tour-order"), Multi(<<"minimize-cost", "minimize-tours">>) })]
ValuePatterns == { <<FALSE, 0>>, <<TRUE, 2>>, <<TRUE, 0>>, <<TRUE, 0 - 1>> }
OrderPatterns == { <<FALSE, 0>>, <<TRUE, 1>>, <<TRUE, 0>> }
FamObjectives == { [Base EXCEPT !.hasObjectives = ho, !.objectives = os, !.jobs[1].hasValue = vp[1], !.jobs[1].value = vp[2],
                                 !.jobs[2].tasks[1].hasOrder = op[1], !.jobs[2].tasks[1].order = op[2]] :
                   ho \in {TRUE}, os \in ObjLists, vp \in ValuePatterns, op \in OrderPatterns }
                 \cup { [Base EXCEPT !.jobs[1].hasValue = vp[1], !.jobs[1].value = vp[2], !.jobs[2].tasks[1].hasOrder = op[1], !.jobs[2].tasks[1].order = op[2]] :
                        vp \in ValuePatterns, op \in OrderPatterns }
\* ---- E1502 / E1503 / E1504: location kinds, sparse indices, matrix sizes
LocPalette == { Idx(0), Idx(1), Idx(2), Idx(7), Geo(1), Geo(2) }
FamRouting == { [Base EXCEPT !.jobs[1].tasks[1].places[1].loc = a, !.jobs[2].tasks[1].places[1].loc = b, !.vehicles[1].shifts[1].loc = c, !.matrices = m] :
                a, b, c \in LocPalette, m \in { <<>>, << [size |-> 2] >>, << [size |-> 3] >>, << [size |-> 4] >>, << [size |-> 8] >> } }
\* ---- degenerate collections
FamEmpty == { [Base EXCEPT !.jobs = <<>>], [Base EXCEPT !.vehicles = <<>>], [Base EXCEPT !.jobs = <<>>, !.vehicles = <<>>],
              [Base EXCEPT !.vehicles[1].ids = <<>>], [Base EXCEPT !.vehicles[1].cap = <<>>], [Base EXCEPT !.vehicles[1].cap = <<10, 5>>],
              [Base EXCEPT !.vehicles[1].cap = <<0>>], [Base EXCEPT !.vehicles[1].cap = <<0 - 1>>] }
\* ---- cross: a job family, a fleet family and an objective list vary TOGETHER (a rule that stops the walk, or one report that
\* replaces another, only shows when two rules are broken at once).  A deterministic sample of each family (every n-th document
\* of TLC's enumeration order, shifted by the run's seed), all combinations of the samples.
SeedN == IF "SEED" \in DOMAIN IOEnv THEN atoi(IOEnv.SEED) ELSE 1
PickOf(S, k) == LET q == SetToSeq(S) n == Len(q) IN
                { q[1 + ((j * (n \div k + 1) + SeedN * 7) % n)] : j \in 1..k }
CrossN == IF Thorough THEN 60 ELSE 24
CrossJobs == PickOf(FamWindows \cup FamDemand \cup FamIds \cup FamDuration, CrossN)
CrossFleet == PickOf(FamShifts \cup FamBreaks \cup FamReloads \cup FamVehicles, CrossN)
CrossObjs == PickOf({ d \in FamObjectives : d.hasObjectives }, IF Thorough THEN 6 ELSE 3) \cup {Base}
FamCross == { [a EXCEPT !.vehicles = b.vehicles, !.profiles = b.profiles, !.matrices = b.matrices, !.hasResources = b.hasResources, !.resources = b.resources,
                       !.hasObjectives = c.hasObjectives, !.objectives = c.objectives] :
              a \in CrossJobs, b \in CrossFleet, c \in CrossObjs }
Families == << <<"cross", FamCross>>, <<"windows", FamWindows>>, <<"demand", FamDemand>>, <<"ids", FamIds>>, <<"duration", FamDuration>>, <<"vehicles", FamVehicles>>,
               <<"shifts", FamShifts>>, <<"breaks", FamBreaks>>, <<"reloads", FamReloads>>, <<"relations", FamRelations>>,
               <<"objectives", FamObjectives>>, <<"routing", FamRouting>>, <<"empty", FamEmpty>> >>
Docs == V_Flat([f \in 1..Len(Families) |-> LET ds == SetToSeq(Families[f][2]) IN [i \in 1..Len(ds) |-> [fam |-> Families[f][1], doc |-> ds[i]]]])
\* the base document breaks no rule under any reading (the per-rule witness / non-witness guard is evaluated by the judge run)
ASSUME MaySet(Base) = {}
ASSUME ndJsonSerialize(IOEnv.OUTFILE, Docs)
ASSUME PrintT("GENERATED " \o ToString(Len(Docs)))
VARIABLE x
Init == x = 0
Next == UNCHANGED x
=============================================================================
