--------------------------------- MODULE Gsom ---------------------------------
(***************************************************************************)
(* C19: structure of the growing self-organising map (algorithms/gsom).    *)
(* The abstract state is the set of occupied coordinates.  Three public    *)
(* operations change or keep it:                                           *)
(*   store_batch  trains on new inputs and may GROW: every new node sits   *)
(*                at a free main-direction neighbour of an occupied cell   *)
(*                (network.rs grow_nodes); nothing is removed;             *)
(*   smooth       retrains without growth: the coordinates stay;           *)
(*   compact      contraction.rs contract_graph: removes every node whose  *)
(*                x or y is a multiple of the decimation step (3 along the *)
(*                longer side, 4 along the other; 4 / 4 for a square),     *)
(*                unless fewer than four nodes would stay, and shifts the  *)
(*                rest towards the origin with integer arithmetic that is  *)
(*                transcribed here exactly (Rust division truncates).      *)
(* G_Compact is a function of the coordinate set, so every observed        *)
(* compaction can be compared with it; MC_Gsom checks on every subset of a *)
(* Win x Win window (at several offsets) that the shift never merges two nodes *)
(* and that the map neither grows nor drops below four nodes.              *)
(***************************************************************************)
EXTENDS Naturals, Integers, Sequences, FiniteSets, FiniteSetsExt, TLC
G_Abs(x) == IF x < 0 THEN 0 - x ELSE x
G_Trunc(a, d) == IF a >= 0 THEN a \div d ELSE 0 - ((0 - a) \div d)           \* Rust integer division
G_Xs(cs) == { c[1] : c \in cs }
G_Ys(cs) == { c[2] : c \in cs }
G_Decim(cs) == LET w == Max(G_Xs(cs)) - Min(G_Xs(cs)) h == Max(G_Ys(cs)) - Min(G_Ys(cs)) IN
               IF w > h THEN <<3, 4>> ELSE IF w < h THEN <<4, 3>> ELSE <<4, 4>>
G_Removed(cs) == LET d == G_Decim(cs) IN { c \in cs : c[1] % d[1] = 0 \/ c[2] % d[2] = 0 }
\* contraction.rs get_offset (v # 0 for every node that stays)
G_Offset(v, lo, hi, d) == LET left == G_Abs(lo) right == G_Abs(hi)
                              extra == IF v > 0 /\ right > left THEN 0 - 1 ELSE IF v < 0 /\ right <= left THEN 1 ELSE 0 IN
                          G_Trunc(0 - v, d) + extra
G_Shift(cs, c) == LET d == G_Decim(cs) IN
  << c[1] + G_Offset(c[1], Min(G_Xs(cs)), Max(G_Xs(cs)), d[1]), c[2] + G_Offset(c[2], Min(G_Ys(cs)), Max(G_Ys(cs)), d[2]) >>
G_Compact(cs) == IF cs = {} \/ Cardinality(cs) - Cardinality(G_Removed(cs)) < 4 THEN cs
                 ELSE { G_Shift(cs, c) : c \in cs \ G_Removed(cs) }
\* model level properties of the compaction
G_ShiftInjective(cs) == Cardinality(cs) - Cardinality(G_Removed(cs)) >= 4 =>
                        Cardinality(G_Compact(cs)) = Cardinality(cs) - Cardinality(G_Removed(cs))
G_NeverGrows(cs) == Cardinality(G_Compact(cs)) <= Cardinality(cs)
G_KeepsFour(cs) == Cardinality(cs) >= 4 => Cardinality(G_Compact(cs)) >= 4
\* growth: every new cell is a main-direction neighbour of a cell of the grown map, nothing disappears
G_Adjacent(a, b) == G_Abs(a[1] - b[1]) + G_Abs(a[2] - b[2]) = 1
G_GrownFrom(old, new) == old \subseteq new /\ \A c \in new \ old : \E b \in new : b # c /\ G_Adjacent(b, c)

=============================================================================
