------------------------------ MODULE GsomSweep ------------------------------
(* Exhaustive sweep of the compaction of Gsom.tla over every subset of a Win x Win window at several offsets. *)
EXTENDS Gsom
CONSTANTS Offsets,          \* window origins for the exhaustive sweep
          Win               \* window side
SweepOffsets == { <<0 - 2, 0 - 2>>, <<0 - 1, 0 - 3>>, <<0, 0>>, <<1, 0 - 1>>, <<0 - 3, 1>>, <<2, 2>>, <<0 - 5, 0 - 1>>, <<3, 0 - 6>> }
VARIABLES off, sub
cells == { <<off[1] + p[1], off[2] + p[2]>> : p \in sub }
GInit == off \in Offsets /\ sub \in SUBSET ((0..(Win - 1)) \X (0..(Win - 1)))
GNext == UNCHANGED <<off, sub>>
GSpec == GInit /\ [][GNext]_<<off, sub>>
ShiftInjective == cells # {} => G_ShiftInjective(cells)
NeverGrows == G_NeverGrows(cells)
KeepsFour == cells # {} => G_KeepsFour(cells)
=============================================================================
