----------------------------- MODULE Insertion -----------------------------
(***************************************************************************)
(* One tour, the jobs that can be inserted into it, and two independent    *)
(* accounts of feasibility:                                                *)
(*   I_Sim      - brute-force, step-by-step simulation of a complete tour  *)
(*                (arrival, waiting, departure, shift end / open end, load *)
(*                with static and dynamic demand) - the oracle of C06;     *)
(*   I_FastEval - transcription of what the evaluator decides from the     *)
(*                O(1) summaries it caches (latest arrival per activity -  *)
(*                schedule_update.rs update_states; current / max-past /   *)
(*                max-future load - capacity.rs recalculate_states;        *)
(*                decisions - transport.rs evaluate_activity, capacity.rs  *)
(*                has_demand_violation).                                   *)
(* MC_Insertion checks the design claim I_FastEval = I_Sim o insert for    *)
(* every tour reachable by guarded insertions (single-task jobs).          *)
(* I_Quote* define the insertion cost the additive objectives must quote   *)
(* (C20).                                                                  *)
(*                                                                         *)
(* A world W fixes the routing matrix, the vehicle and the job palette:    *)
(*  [d, sloc, closed, eloc, shiftEnd, cap, fixed, cd, ct, jobs]            *)
(* a palette job: [kind, loc, dur, tws, q, value] with kind in             *)
(*  "del" "pick" "rep" "svc" (single task, static demand) or a pair        *)
(*  [kind |-> "pd", p: [loc,dur,tws], d: [loc,dur,tws], q, value]          *)
(* an activity of a tour: [j, part, w]: palette index, 0 single / 1 pickup *)
(*  / 2 delivery part, index of the time window the activity was inserted  *)
(*  with (existing activities keep their window - Appendix B "Time").      *)
(***************************************************************************)
EXTENDS Naturals, Integers, Sequences, SequencesExt, FiniteSets, FiniteSetsExt, TLC

I_Max(a, b) == IF a > b THEN a ELSE b
I_Min(a, b) == IF a < b THEN a ELSE b
I_Inf == 1000000                      \* "no shift end" (open shift without latest end)
I_Sum(s) == FoldLeft(LAMBDA a, b : a + b, 0, s)
I_InsAt(s, x, p) == SubSeq(s, 1, p) \o <<x>> \o SubSeq(s, p + 1, Len(s))

(***************************** activities *********************************)
I_Task(W, a) == LET jb == W.jobs[a.j] IN
                IF jb.kind = "pd" THEN (IF a.part = 1 THEN jb.p ELSE jb.d) ELSE jb
\* a task is served at one of its alternatives: alternative k = window tws[k] at location locs[k] when the task lists places of its
\* own ("locs", as long as "tws"), otherwise all windows belong to the one location "loc"
I_Loc(W, a) == LET t == I_Task(W, a) IN IF "locs" \in DOMAIN t THEN t.locs[a.w] ELSE t.loc
I_Dur(W, a) == I_Task(W, a).dur
I_Tw(W, a) == I_Task(W, a).tws[a.w]
\* "rep" (replacement): a static delivery and a static pickup of the same amount in one activity - the delivered part is on board
\* from the start up to the activity, the collected part from the activity to the end (the net change at the activity is 0)
I_StaticDel(W, a) == IF W.jobs[a.j].kind \in {"del", "rep"} THEN W.jobs[a.j].q ELSE 0
I_StaticPick(W, a) == IF W.jobs[a.j].kind \in {"pick", "rep"} THEN W.jobs[a.j].q ELSE 0
I_Dyn(W, a) == IF W.jobs[a.j].kind = "pd" THEN (IF a.part = 1 THEN W.jobs[a.j].q ELSE 0 - W.jobs[a.j].q) ELSE 0
I_Change(W, a) == I_StaticPick(W, a) - I_StaticDel(W, a) + I_Dyn(W, a)
I_EndLoc(W) == IF W.closed THEN W.eloc ELSE W.sloc
I_ShiftEnd(W) == W.shiftEnd

(************************* brute-force simulation *************************)
\* schedule walk: [t: departure time, loc, ok, arr: <<arrivals>>, dep: <<departures>>]
I_TimeWalk(W, tour) ==
  FoldLeft(LAMBDA acc, a :
             LET arr == acc.t + W.d[acc.loc][I_Loc(W, a)] tw == I_Tw(W, a)
                 dep == I_Max(arr, tw[1]) + I_Dur(W, a) IN
             [t |-> dep, loc |-> I_Loc(W, a), ok |-> acc.ok /\ arr <= tw[2],
              arr |-> Append(acc.arr, arr), dep |-> Append(acc.dep, dep)],
           [t |-> 0, loc |-> W.sloc, ok |-> TRUE, arr |-> <<>>, dep |-> <<>>], tour)
I_TimeOk(W, tour) ==
  LET fin == I_TimeWalk(W, tour) IN
  /\ fin.ok
  /\ IF W.closed THEN fin.t + W.d[fin.loc][W.eloc] <= W.shiftEnd
     ELSE tour = <<>> \/ fin.arr[Len(tour)] <= W.shiftEnd    \* open end: the last job is reached within the shift
\* load walk: static deliveries on board from the start, static pickups to the end, dynamic between its two parts
I_Loads(W, tour) ==
  LET l0 == I_Sum([i \in 1..Len(tour) |-> I_StaticDel(W, tour[i])])
      RECURSIVE go(_, _)
      go(i, l) == IF i > Len(tour) THEN <<>> ELSE LET n == l + I_Change(W, tour[i]) IN <<n>> \o go(i + 1, n)
  IN <<l0>> \o go(1, l0)             \* Loads[1] = at start, Loads[i+1] = after activity i
I_LoadOk(W, tour) == \A i \in 1..(Len(tour) + 1) : I_Loads(W, tour)[i] >= 0 /\ I_Loads(W, tour)[i] <= W.cap
\* structure: a palette job at most once, pairs complete with pickup before delivery
I_WellFormed(W, tour) ==
  /\ \A i, k \in 1..Len(tour) : i # k => <<tour[i].j, tour[i].part>> # <<tour[k].j, tour[k].part>>
  /\ \A i \in 1..Len(tour) : tour[i].part = 1 => \E k \in (i + 1)..Len(tour) : tour[k].j = tour[i].j /\ tour[k].part = 2
  /\ \A i \in 1..Len(tour) : tour[i].part = 2 => \E k \in 1..(i - 1) : tour[k].j = tour[i].j /\ tour[k].part = 1
I_Sim(W, tour) == I_TimeOk(W, tour) /\ I_LoadOk(W, tour)

(**************** the summaries and the evaluator's decision ***************)
\* latest arrival per activity (backward pass of update_states): for the last activity the shift end minus the way
\* to the end location and the service; an open shift without end time leaves the activity's own window end
I_LatestArrivals(W, tour) ==
  LET n == Len(tour)
      RECURSIVE la(_)
      la(i) == LET a == tour[i]
                   endTime == IF i = n THEN W.shiftEnd ELSE la(i + 1)
                   nextLoc == IF i = n THEN I_EndLoc(W) ELSE I_Loc(W, tour[i + 1]) IN
               IF i = n /\ ~W.closed /\ W.shiftEnd = I_Inf THEN I_Tw(W, a)[2]
               ELSE I_Min(I_Tw(W, a)[2], endTime - W.d[I_Loc(W, a)][nextLoc] - I_Dur(W, a))
  IN [i \in 1..n |-> la(i)]
\* transport.rs evaluate_activity for target activity x between position p (prev) and p+1 (next)
I_FastTime(W, tour, x, p) ==
  LET n == Len(tour) walk == I_TimeWalk(W, tour)
      prevLoc == IF p = 0 THEN W.sloc ELSE I_Loc(W, tour[p])
      departure == IF p = 0 THEN 0 ELSE walk.dep[p]
      hasNext == p < n \/ W.closed
      nextLoc == IF p < n THEN I_Loc(W, tour[p + 1]) ELSE IF W.closed THEN W.eloc ELSE I_Loc(W, x)
      tw == I_Tw(W, x)
      latestAtNext == IF p < n THEN I_LatestArrivals(W, tour)[p + 1]
                      ELSE IF W.closed THEN W.shiftEnd ELSE I_Min(tw[2], W.shiftEnd)
      arrTarget == departure + W.d[prevLoc][I_Loc(W, x)]
      latestDepTarget == latestAtNext - W.d[I_Loc(W, x)][nextLoc]
      \* open end (no next activity): nothing restricts the departure from the target
      latestArrTarget == IF hasNext THEN I_Min(tw[2], latestDepTarget - I_Dur(W, x)) ELSE latestAtNext
      endTarget == I_Max(arrTarget, tw[1]) + I_Dur(W, x)
  IN /\ ~(W.shiftEnd < tw[1])
     /\ departure + W.d[prevLoc][nextLoc] <= latestAtNext
     /\ tw[1] <= latestAtNext
     /\ arrTarget <= latestArrTarget
     /\ (hasNext => endTarget + W.d[I_Loc(W, x)][nextLoc] <= latestAtNext)
\* capacity.rs has_demand_violation with pivot = index of prev (0 = start)
I_FastLoad(W, tour, x, p) ==
  LET loads == I_Loads(W, tour)          \* loads[i+1] = after activity i
      maxPast == Max({ loads[i] : i \in 1..(p + 1) })
      maxFuture == Max({ loads[i] : i \in (p + 1)..(Len(tour) + 1) }) IN
  /\ (I_StaticDel(W, x) > 0 => maxPast + I_StaticDel(W, x) <= W.cap)
  /\ (I_StaticPick(W, x) > 0 => maxFuture + I_StaticPick(W, x) <= W.cap)
I_FastEval(W, tour, x, p) == I_FastTime(W, tour, x, p) /\ I_FastLoad(W, tour, x, p)

(**************************** insertion cases ******************************)
I_Windows(W, j, part) == LET jb == W.jobs[j] t == IF jb.kind = "pd" THEN (IF part = 1 THEN jb.p ELSE jb.d) ELSE jb IN 1..Len(t.tws)
I_SingleActs(W, j) == { [j |-> j, part |-> 0, w |-> w] : w \in I_Windows(W, j, 0) }
\* feasibility of inserting single-task job j at position p (some window)
I_FeasibleAt(W, tour, j, p) == \E x \in I_SingleActs(W, j) : I_Sim(W, I_InsAt(tour, x, p))
I_FeasiblePositions(W, tour, j) == { p \in 0..Len(tour) : I_FeasibleAt(W, tour, j, p) }
I_InTour(tour, j) == \E i \in 1..Len(tour) : tour[i].j = j

(******************************* quotes (C20) ******************************)
\* distance objective: d(prev,t) + d(t,next) - d(prev,next); open end / empty tour: no old leg to subtract
I_QuoteDistance(W, tour, x, p) ==
  LET n == Len(tour)
      prevLoc == IF p = 0 THEN W.sloc ELSE I_Loc(W, tour[p])
      hasNext == p < n \/ W.closed
      nextLoc == IF p < n THEN I_Loc(W, tour[p + 1]) ELSE W.eloc
      new == W.d[prevLoc][I_Loc(W, x)] + (IF hasNext THEN W.d[I_Loc(W, x)][nextLoc] ELSE 0) IN
  IF n = 0 \/ ~hasNext THEN new ELSE new - W.d[prevLoc][nextLoc]
I_TourDistance(W, tour) ==
  IF tour = <<>> THEN 0 ELSE
  LET locs == <<W.sloc>> \o [i \in 1..Len(tour) |-> I_Loc(W, tour[i])] \o (IF W.closed THEN <<W.eloc>> ELSE <<>>) IN
  I_Sum([i \in 1..(Len(locs) - 1) |-> W.d[locs[i]][locs[i + 1]]])
I_TourDuration(W, tour) ==
  IF tour = <<>> THEN 0 ELSE
  LET fin == I_TimeWalk(W, tour) IN IF W.closed THEN fin.t + W.d[fin.loc][W.eloc] ELSE fin.t
I_NoWaiting(W, tour) == LET walk == I_TimeWalk(W, tour) IN \A i \in 1..Len(tour) : walk.arr[i] >= I_Tw(W, tour[i])[1]
\* additive objective values of a solution consisting of this one tour (empty tour = vehicle not used)
I_FitTours(tour) == IF tour = <<>> THEN 0 ELSE 1
I_FitValue(W, tour) == 0 - I_Sum([i \in 1..Len(tour) |-> IF tour[i].part \in {0, 1} THEN W.jobs[tour[i].j].value ELSE 0])
I_FitCost(W, tour) == IF tour = <<>> THEN 0 ELSE W.fixed + W.cd * I_TourDistance(W, tour) + W.ct * I_TourDuration(W, tour)
=============================================================================
