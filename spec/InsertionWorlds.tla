-------------------------- MODULE InsertionWorlds --------------------------
(* The finite worlds over which C06 / C20 are decided exhaustively (DESIGN section 6 C06 "TLC (model)").     *)
(* Every palette contains: windows with equality at both ends, zero and positive durations, two windows,     *)
(* a window that starts after the shift end, static pickups / deliveries, a service, a pickup-delivery pair.  *)
EXTENDS Insertion, Json, IOUtils

S(loc, dur, tws, kind, q, value) == [kind |-> kind, loc |-> loc, dur |-> dur, tws |-> tws, q |-> q, value |-> value]
PD(ploc, pdur, ptws, dloc, ddur, dtws, q, value) ==
  [kind |-> "pd", p |-> [loc |-> ploc, dur |-> pdur, tws |-> ptws], d |-> [loc |-> dloc, dur |-> ddur, tws |-> dtws],
   q |-> q, value |-> value]

\* asymmetric 3x3, closed tour, shift end 15, capacity 2 (the world of the scratch prototype + pair + service)
World1 == [name |-> "closed-asym-cap2",
  d |-> << <<0, 2, 3>>, <<2, 0, 1>>, <<4, 1, 0>> >>, sloc |-> 1, closed |-> TRUE, eloc |-> 1, shiftEnd |-> 15, cap |-> 2,
  fixed |-> 7, cd |-> 2, ct |-> 1,
  jobs |-> << S(2, 1, << <<0, 10>> >>, "del", 1, 0),
              S(3, 2, << <<5, 8>> >>, "pick", 1, 3),
              S(2, 0, << <<3, 3>> >>, "del", 1, 0),
              S(3, 1, << <<0, 4>>, <<20, 30>> >>, "del", 1, 2),
              S(2, 3, << <<0, 100>> >>, "pick", 2, 0),
              S(3, 1, << <<9, 9>>, <<11, 12>> >>, "pick", 1, 1),
              S(2, 1, << <<0, 100>> >>, "svc", 0, 5),
              S(3, 1, << <<0, 100>> >>, "rep", 1, 2),
              PD(2, 1, << <<0, 100>> >>, 3, 1, << <<0, 100>> >>, 1, 4) >>]
\* open end, no shift end at all
World2 == [name |-> "open-unbounded",
  d |-> << <<0, 2, 3>>, <<2, 0, 1>>, <<4, 1, 0>> >>, sloc |-> 1, closed |-> FALSE, eloc |-> 1, shiftEnd |-> I_Inf, cap |-> 2,
  fixed |-> 0, cd |-> 1, ct |-> 1,
  jobs |-> << S(2, 1, << <<0, 10>> >>, "del", 1, 0),
              S(3, 2, << <<5, 8>> >>, "pick", 1, 3),
              S(2, 0, << <<3, 3>> >>, "del", 1, 0),
              S(3, 1, << <<0, 4>>, <<20, 30>> >>, "del", 1, 2),
              S(2, 3, << <<0, 100>> >>, "pick", 2, 0),
              S(3, 1, << <<9, 9>>, <<11, 12>> >>, "pick", 1, 1),
              PD(3, 0, << <<0, 100>> >>, 2, 2, << <<4, 20>> >>, 2, 0) >>]
\* closed, start and end differ, 4 locations, metric, capacity 3, tight shift
World3 == [name |-> "closed-4loc-cap3",
  d |-> << <<0, 3, 4, 5>>, <<3, 0, 2, 4>>, <<4, 2, 0, 3>>, <<5, 4, 3, 0>> >>, sloc |-> 1, closed |-> TRUE, eloc |-> 4,
  shiftEnd |-> 20, cap |-> 3, fixed |-> 10, cd |-> 1, ct |-> 2,
  jobs |-> << S(2, 2, << <<0, 6>> >>, "del", 2, 1),
              S(3, 1, << <<7, 7>> >>, "pick", 1, 0),
              S(3, 0, << <<0, 3>>, <<10, 14>> >>, "del", 1, 2),
              S(2, 1, << <<12, 30>> >>, "pick", 3, 0),
              S(4, 2, << <<0, 100>> >>, "del", 1, 0),
              S(2, 0, << <<25, 40>> >>, "pick", 1, 0),
              PD(2, 1, << <<0, 100>> >>, 3, 1, << <<0, 100>> >>, 2, 3) >>]
\* (an open shift with a finite end time cannot be expressed in the code: without an end place the actor's time window is
\*  unbounded, so the model's "open" worlds all have shiftEnd = I_Inf)
\* closed, loose shift, capacity 1, zero-distance pair of locations (2 and 3 coincide), everything tight on capacity
World4 == [name |-> "closed-cap1-coincident",
  d |-> << <<0, 2, 2>>, <<2, 0, 0>>, <<2, 0, 0>> >>, sloc |-> 1, closed |-> TRUE, eloc |-> 1, shiftEnd |-> 40, cap |-> 1,
  fixed |-> 3, cd |-> 1, ct |-> 1,
  jobs |-> << S(2, 1, << <<0, 10>> >>, "del", 1, 0),
              S(3, 2, << <<5, 8>> >>, "pick", 1, 3),
              S(2, 4, << <<8, 30>> >>, "del", 1, 0),
              S(3, 1, << <<0, 4>>, <<11, 30>> >>, "pick", 1, 2),
              S(2, 3, << <<0, 100>> >>, "svc", 0, 0),
              PD(2, 0, << <<0, 100>> >>, 3, 2, << <<0, 11>> >>, 1, 0) >>]
\* closed, loose windows, a matrix that is asymmetric between every pair of places (and metric), several jobs per place and one at
\* the depot: insertions between two activities at one place, where "there and back" is not twice "there"
World5 == [name |-> "closed-asym-shared-places",
  d |-> << <<0, 2, 3>>, <<3, 0, 1>>, <<5, 4, 0>> >>, sloc |-> 1, closed |-> TRUE, eloc |-> 1, shiftEnd |-> 60, cap |-> 3,
  fixed |-> 2, cd |-> 1, ct |-> 1,
  jobs |-> << S(2, 1, << <<0, 100>> >>, "del", 1, 0),
              S(2, 0, << <<0, 100>> >>, "pick", 1, 2),
              S(3, 1, << <<0, 100>> >>, "del", 1, 1),
              S(3, 2, << <<0, 100>> >>, "svc", 0, 3),
              S(1, 1, << <<0, 100>> >>, "del", 1, 0),
              S(2, 1, << <<5, 40>> >>, "pick", 1, 0),
              PD(3, 1, << <<0, 100>> >>, 2, 1, << <<0, 100>> >>, 1, 2),
              \* a pair whose tasks list a usable window FIRST and a hopeless one last: the place that is applied has to be the one that was quoted
              PD(2, 1, << <<0, 50>>, <<200, 300>> >>, 3, 2, << <<0, 55>>, <<400, 500>> >>, 1, 1),
              \* a pair whose pickup can be made at two PLACES (location 2 or 3, both all day): which one is cheaper depends on the tour
              [kind |-> "pd", p |-> [loc |-> 2, locs |-> <<2, 3>>, dur |-> 1, tws |-> << <<0, 100>>, <<0, 100>> >>],
                              d |-> [loc |-> 3, dur |-> 1, tws |-> << <<0, 100>> >>], q |-> 1, value |-> 2] >>]
\* waiting is paid (cost objective), windows of a place are NOT listed in the order of time: the near job can only be served cheaply
\* in its second-listed (early) window; in the first-listed (late) one it costs more than a far job does
World6 == [name |-> "closed-late-window-first",
  d |-> << <<0, 2, 9>>, <<2, 0, 8>>, <<9, 8, 0>> >>, sloc |-> 1, closed |-> TRUE, eloc |-> 1, shiftEnd |-> 300, cap |-> 4,
  fixed |-> 0, cd |-> 1, ct |-> 1,
  jobs |-> << S(3, 1, << <<0, 200>> >>, "del", 1, 0),
              S(2, 1, << <<60, 80>>, <<0, 20>> >>, "del", 1, 0),
              S(3, 1, << <<0, 200>> >>, "pick", 1, 0),
              S(2, 1, << <<90, 95>>, <<0, 30>> >>, "pick", 1, 1),
              S(3, 2, << <<0, 200>> >>, "del", 1, 2),
              S(2, 0, << <<0, 200>> >>, "svc", 0, 1) >>]
FixedWorlds == <<World1, World2, World3, World4, World5, World6>>
\* seed dependent worlds produced by the driver (same record shape), appended to the fixed ones
ExtraWorlds == IF "EXTRAWORLDS" \in DOMAIN IOEnv /\ IOEnv.EXTRAWORLDS # "" THEN ndJsonDeserialize(IOEnv.EXTRAWORLDS) ELSE <<>>
Worlds == FixedWorlds \o ExtraWorlds
=============================================================================
