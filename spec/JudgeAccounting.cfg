SPECIFICATION JSpec
CHECK_DEADLOCK FALSE
INVARIANT J_PartitionJobs
INVARIANT J_NoForeignIds
INVARIANT J_TourNamesVehicleShift
INVARIANT J_TourServesJob
INVARIANT J_TourUniqueVehicleShift
INVARIANT J_PickupBeforeDelivery
INVARIANT J_ConditionalWithinDefined
INVARIANT J_OverallIsSumOfTours
