---------------------------- MODULE JudgeAccounting ----------------------------
(* C02 on solutions of problems with vicinity clustering: the schedule of a clustered stop (commute, parking) is outside the
   VrpModel oracle, but the accounting of jobs is not.  Slim records:
   [id, jobs: Seq([id, kinds: Seq(STRING)]), vehicles: Seq([id, shifts]), tours: Seq([vehicle, shift, acts: Seq([job, type])]),
    unassigned: Seq([job, nreasons])]                                                                                        *)
EXTENDS Naturals, Integers, Sequences, FiniteSets, TLC, Json, IOUtils
Recs == ndJsonDeserialize(IOEnv.RECS)
VARIABLE l
E == Recs[l]
Judge(name, ok) == ok \/ PrintT("VERDICT-FAIL " \o name \o " " \o ToString(l) \o " " \o E.id)
JInit == l = 1
JNext == l < Len(Recs) /\ l' = l + 1
JSpec == JInit /\ [][JNext]_l
Range(s) == { s[i] : i \in 1..Len(s) }
CustomerTypes == {"pickup", "delivery", "service", "replacement"}
JobIds == { E.jobs[i].id : i \in 1..Len(E.jobs) }
Job(id) == E.jobs[CHOOSE i \in 1..Len(E.jobs) : E.jobs[i].id = id]
AllActs == UNION { { <<k, i>> : i \in 1..Len(E.tours[k].acts) } : k \in 1..Len(E.tours) }
ActsOf(id) == { p \in AllActs : E.tours[p[1]].acts[p[2]].job = id /\ E.tours[p[1]].acts[p[2]].type \in CustomerTypes }
Count(seq, x) == Cardinality({ i \in 1..Len(seq) : seq[i] = x })
Unassigned == [i \in 1..Len(E.unassigned) |-> E.unassigned[i].job]
\* each job: completely in exactly one tour (every task exactly once) or exactly once in the unassigned list with a reason
PartitionJobs == \A id \in JobIds :
  LET acts == ActsOf(id) j == Job(id) IN
  IF acts = {} THEN Count(Unassigned, id) = 1 /\ \A i \in 1..Len(E.unassigned) : E.unassigned[i].job = id => E.unassigned[i].nreasons >= 1
  ELSE /\ Count(Unassigned, id) = 0
       /\ Cardinality({ p[1] : p \in acts }) = 1
       /\ Cardinality(acts) = Len(j.kinds)
       /\ \A kind \in Range(j.kinds) : Cardinality({ p \in acts : E.tours[p[1]].acts[p[2]].type = kind }) = Count(j.kinds, kind)
\* no other job id appears
NoForeignIds == /\ \A p \in AllActs : LET a == E.tours[p[1]].acts[p[2]] IN a.type \in CustomerTypes => a.job \in JobIds
                /\ \A i \in 1..Len(E.unassigned) : E.unassigned[i].job \in JobIds \/ E.unassigned[i].job \in {"break", "reload"}
\* every tour names an existing vehicle and shift, serves a job; no vehicle shift drives two tours
TourNamesVehicleShift == \A k \in 1..Len(E.tours) : \E v \in 1..Len(E.vehicles) : E.vehicles[v].id = E.tours[k].vehicle /\ E.tours[k].shift \in 1..E.vehicles[v].shifts
TourServesJob == \A k \in 1..Len(E.tours) : \E i \in 1..Len(E.tours[k].acts) : E.tours[k].acts[i].type \in CustomerTypes
TourUniqueVehicleShift == \A a, b \in 1..Len(E.tours) : a # b => <<E.tours[a].vehicle, E.tours[a].shift>> # <<E.tours[b].vehicle, E.tours[b].shift>>
\* "pickups before deliveries": every pickup of a job is met before every delivery of it
PickupBeforeDelivery == \A k \in 1..Len(E.tours) : LET acts == E.tours[k].acts IN
  \A p, q \in 1..Len(acts) : (acts[p].job = acts[q].job /\ acts[p].job \in JobIds /\ acts[p].type = "delivery" /\ acts[q].type = "pickup") => q < p
\* "every break ... stop that appears corresponds to a distinct one defined for that very vehicle shift": no more break / reload /
\* recharge activities in a tour than its shift defines (records carry the numbers per shift: conditional[shift][kind])
CondKinds == {"break", "reload", "recharge"}
ConditionalWithinDefined == \A k \in 1..Len(E.tours) :
  \A v \in 1..Len(E.vehicles) : (E.vehicles[v].id = E.tours[k].vehicle /\ E.tours[k].shift \in 1..E.vehicles[v].shifts) =>
     \A kind \in CondKinds :
        Cardinality({ i \in 1..Len(E.tours[k].acts) : E.tours[k].acts[i].type = kind }) <= E.vehicles[v].conditional[E.tours[k].shift][kind]
\* C03 "the overall statistic is the sum of the tours" - every member, the commuting and parking times of clustered stops included
StatFields == {"cost", "distance", "duration", "driving", "serving", "waiting", "brk", "commuting", "parking"}
RECURSIVE SumTours(_, _)
SumTours(f, k) == IF k = 0 THEN 0 ELSE E.tours[k].stat[f] + SumTours(f, k - 1)
OverallIsSumOfTours == \A f \in StatFields :
   LET d == E.stat[f] - SumTours(f, Len(E.tours)) IN IF f = "cost" THEN d >= -5 /\ d <= 5 ELSE d = 0
J_OverallIsSumOfTours == Judge("OverallIsSumOfTours", OverallIsSumOfTours)
J_PickupBeforeDelivery == Judge("PickupBeforeDelivery", PickupBeforeDelivery)
J_ConditionalWithinDefined == Judge("ConditionalWithinDefined", ConditionalWithinDefined)
J_PartitionJobs == Judge("PartitionJobs", PartitionJobs)
J_NoForeignIds == Judge("NoForeignIds", NoForeignIds)
J_TourNamesVehicleShift == Judge("TourNamesVehicleShift", TourNamesVehicleShift)
J_TourServesJob == Judge("TourServesJob", TourServesJob)
J_TourUniqueVehicleShift == Judge("TourUniqueVehicleShift", TourUniqueVehicleShift)
=============================================================================
