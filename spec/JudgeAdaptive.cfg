SPECIFICATION JSpec
CHECK_DEADLOCK FALSE
INVARIANT J_NoPanic
INVARIANT J_SlotAsModel
INVARIANT J_SlotFinite
INVARIANT J_SlotShapePositive
INVARIANT J_SlotRatePositive
INVARIANT J_SlotVarianceNonNegative
INVARIANT J_SlotMeanInHull
INVARIANT J_SlotSamplingWorks
INVARIANT J_MinVariationAsModel
INVARIANT J_EstimateInRange
INVARIANT J_EstimateAsModel
INVARIANT J_SelectorPicksConfigured
INVARIANT J_RewardsFinite
INVARIANT J_RewardsInRange
INVARIANT J_ProximityAsDefined
INVARIANT J_CompositeAsModel
INVARIANT J_MaxTimeEstimateSane
