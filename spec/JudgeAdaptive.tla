----------------------------- MODULE JudgeAdaptive -----------------------------
(* C18: observations of the real slot machine, variation criterion, progress estimate and adaptive selector (act) for TLC-generated
   cases (case), judged against Adaptive.tla. *)
EXTENDS MathUtil, Json, IOUtils
Recs == ndJsonDeserialize(IOEnv.RECS)
VARIABLE l
E == Recs[l]
Judge(name, ok) == ok \/ PrintT("VERDICT-FAIL " \o name \o " " \o ToString(l) \o " " \o E.id)
JInit == l = 1
JNext == l < Len(Recs) /\ l' = l + 1
JSpec == JInit /\ [][JNext]_l
Abs(x) == IF x < 0 THEN 0 - x ELSE x
Alive == E.act.panic = ""
NoPanic == Alive
IsExact == E.kind = "slot-exact" /\ Alive
\* the learning state equals the model's exact state (units: alpha * 2, beta * 24, mu * n, v * 12 (n + 4); observed in 1/10000)
SlotAsModel == IsExact =>
  /\ E.act.n = E.case.exp.n
  /\ Abs(E.act.alpha2K - 10000 * E.case.exp.alpha2) <= 1
  /\ Abs(E.act.b24K - 10000 * E.case.exp.B24) <= 2
  /\ Abs(E.act.sK - 10000 * E.case.exp.S) <= 2
  /\ Abs(E.act.v24K - 10000 * E.case.exp.B24) <= 4
IsPal == E.kind = "slot-palette" /\ Alive
SlotFinite == IsPal => E.act.finite
SlotShapePositive == IsPal => E.act.shapePositive
SlotRatePositive == IsPal => E.act.ratePositive
SlotVarianceNonNegative == IsPal => E.act.varianceOk
SlotMeanInHull == IsPal => E.act.meanInHull
SlotSamplingWorks == IsPal => E.act.sampleOk /\ E.act.samplerArgsOk /\ E.act.countOk
IsMv == E.kind = "minvar" /\ Alive
\* "fires exactly when the coefficient of variation of every objective over the window is below the threshold"
MinVariationAsModel == IsMv => \A g \in 1..Len(E.case.exp) : E.case.tie[g] \/ (E.act.fired[g] = E.case.exp[g])
IsEst == E.kind = "estimate" /\ Alive
EstimateInRange == IsEst => \A i \in 1..Len(E.act.estimates) : E.act.estimates[i].inRange
EstimateAsModel == IsEst => \A i \in 1..Len(E.act.estimates) :
   LET g == E.case.gens[i] lim == E.case.limit IN
   /\ E.act.estimates[i].fires = (g >= lim)
   /\ (g >= lim => E.act.estimates[i].estK = 1000)
   /\ (g < lim => Abs(E.act.estimates[i].estK * lim - 1000 * g) <= lim)
\* target proximity: "distance < threshold" with the distance of MathUtil (16 D^2 is an integer on the generated magnitudes); an exact tie is not compared
IsProx == E.kind = "proximity" /\ Alive
ProximityAsDefined == IsProx => LET r == M_RelSq16(E.case.target, E.case.best) IN
   /\ ~E.act.firedEmpty /\ E.act.inRange
   /\ (r * E.case.td * E.case.td = 16 * E.case.tn * E.case.tn \/ E.act.firedBest = (r * E.case.td * E.case.td < 16 * E.case.tn * E.case.tn))
\* composite: terminates with the first of its parts, estimates with the largest part; nothing to wait for = never, estimate 0
IsComp == E.kind = "composite" /\ Alive
CompLim == Min({ E.case.limits[i] : i \in 1..Len(E.case.limits) })
CompositeAsModel == IsComp => \A i \in 1..Len(E.act.estimates) : LET g == E.case.gens[i] e == E.act.estimates[i] IN
   /\ e.inRange
   /\ IF E.case.limits = <<>> THEN ~e.fires /\ e.estK = 0
      ELSE /\ e.fires = (g >= CompLim)
           /\ (g >= CompLim => e.estK = 1000)
           /\ (g < CompLim => Abs(e.estK * CompLim - 1000 * g) <= CompLim)
IsMt == E.kind = "maxtime" /\ Alive
MaxTimeEstimateSane == IsMt => /\ E.act.inRange /\ E.act.monotone
                               /\ (E.act.waited => E.act.firedAfter /\ E.act.fullAfter)
                               /\ (E.case.limitMs >= 3600000 => ~E.act.firedAtOnce /\ ~E.act.firedAfter /\ ~E.act.fullAfter)
IsDyn == E.kind = "dyn" /\ Alive
SelectorPicksConfigured == IsDyn => E.act.picksInRange /\ E.act.oneCallPerSearch /\ E.act.picks >= E.case.steps
RewardsFinite == IsDyn => E.act.rewardsFinite /\ E.act.rewards >= E.case.steps
RewardsInRange == IsDyn => E.act.rewardsInRange
J_NoPanic == Judge("NoPanic", NoPanic)
J_SlotAsModel == Judge("SlotAsModel", SlotAsModel)
J_SlotFinite == Judge("SlotFinite", SlotFinite)
J_SlotShapePositive == Judge("SlotShapePositive", SlotShapePositive)
J_SlotRatePositive == Judge("SlotRatePositive", SlotRatePositive)
J_SlotVarianceNonNegative == Judge("SlotVarianceNonNegative", SlotVarianceNonNegative)
J_SlotMeanInHull == Judge("SlotMeanInHull", SlotMeanInHull)
J_SlotSamplingWorks == Judge("SlotSamplingWorks", SlotSamplingWorks)
J_MinVariationAsModel == Judge("MinVariationAsModel", MinVariationAsModel)
J_EstimateInRange == Judge("EstimateInRange", EstimateInRange)
J_EstimateAsModel == Judge("EstimateAsModel", EstimateAsModel)
J_ProximityAsDefined == Judge("ProximityAsDefined", ProximityAsDefined)
J_CompositeAsModel == Judge("CompositeAsModel", CompositeAsModel)
J_MaxTimeEstimateSane == Judge("MaxTimeEstimateSane", MaxTimeEstimateSane)
J_SelectorPicksConfigured == Judge("SelectorPicksConfigured", SelectorPicksConfigured)
J_RewardsFinite == Judge("RewardsFinite", RewardsFinite)
J_RewardsInRange == Judge("RewardsInRange", RewardsInRange)
=============================================================================
