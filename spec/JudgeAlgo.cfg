SPECIFICATION JSpec
CHECK_DEADLOCK FALSE
INVARIANT J_Terminates
INVARIANT J_NoPanic
INVARIANT J_LkhPermutation
INVARIANT J_LkhSameStart
INVARIANT J_LkhNotWorse
INVARIANT J_DbDisjoint
INVARIANT J_DbGrown
INVARIANT J_DbCoreClustered
INVARIANT J_KmPartition
INVARIANT J_KmNearest
INVARIANT J_HierPartition
INVARIANT J_HierNearest
INVARIANT J_JobDbDisjoint
INVARIANT J_JobDbGrown
INVARIANT J_JobDbCoreClustered
