------------------------------- MODULE JudgeAlgo -------------------------------
(* C17: outputs of the real algorithms (act) for TLC-generated inputs (in) against the contracts of Algo.tla. *)
EXTENDS Algo, Json, IOUtils
Recs == ndJsonDeserialize(IOEnv.RECS)
VARIABLE l
E == Recs[l]
Judge(name, ok) == ok \/ PrintT("VERDICT-FAIL " \o name \o " " \o ToString(l) \o " " \o E.kind \o ToString(E.c))
JInit == l = 1
JNext == l < Len(Recs) /\ l' = l + 1
JSpec == JInit /\ [][JNext]_l
Ok == E.act.status = "ok"
IsLkh == E.kind \in {"lkh", "lkhgeo"} /\ Ok
IsDb == E.kind = "db" /\ Ok
IsKm == E.kind = "km" /\ Ok
IsHier == E.kind = "hier" /\ Ok
NbSets == [p \in 1..Len(E.in.nb) |-> A_Range(E.in.nb[p])]
\* "always terminates" (and does not panic)
Terminates == E.act.status # "timeout"
NoPanic == E.act.status # "panic"
LkhPermutation == IsLkh => A_LkhSome(E.act.outs) /\ A_LkhPermutation(E.in.path, E.act.outs)
LkhSameStart == IsLkh => A_LkhSameStart(E.in.path, E.act.outs)
\* Euclidean stratum: closed costs are computed by the harness (micro-units), tolerance 1 micro-unit
LkhNotWorse == IsLkh => IF E.kind = "lkh" THEN A_LkhNotWorse(E.in.m, E.in.path, E.act.outs)
                        ELSE \A k \in 1..Len(E.act.costOutsU) : E.act.costOutsU[k] <= E.act.costInU + 1
DbDisjoint == IsDb => A_DbDisjoint(E.act.clusters) /\ A_DbOnlyGivenPoints(E.in.order, E.act.clusters)
DbGrown == IsDb => A_DbGrown(NbSets, E.in.minPts, E.act.clusters)
DbCoreClustered == IsDb => A_DbCoreClustered(NbSets, E.in.minPts, E.in.order, E.act.clusters)
\* the job-level wrapper (construction/clustering/dbscan): "exclude jobs without locations from clustering" - a job has a location when one
\* of its tasks has a place with a location; the jobs left are clustered over the neighbours left, with at least 2 points for a core
IsJobDb == E.kind = "jobdb" /\ Ok
HasLoc(p) == E.in.shapes[p] \in {"single", "multi", "multi-mixed"}
JobOrder == SelectSeq(E.in.order, HasLoc)
JobNb == [p \in 1..Len(E.in.nb) |-> { q \in A_Range(E.in.nb[p]) : HasLoc(q) }]
JobMinPts == IF E.in.minPts < 2 THEN 2 ELSE E.in.minPts
JobDbDisjoint == IsJobDb => A_DbDisjoint(E.act.clusters) /\ A_DbOnlyGivenPoints(JobOrder, E.act.clusters)
JobDbGrown == IsJobDb => A_DbGrown(JobNb, JobMinPts, E.act.clusters)
JobDbCoreClustered == IsJobDb => A_DbCoreClustered(JobNb, JobMinPts, JobOrder, E.act.clusters)
KmPartition == IsKm => A_KmPartition([i \in 1..E.in.n |-> i], E.act.clusters) /\ A_KmMedoidsDistinct(E.act.clusters)
KmNearest == IsKm => A_KmNearest(E.in.d, E.act.clusters)
HierPartition == IsHier => A_HierPartition([i \in 1..E.in.n |-> i], E.act.tiers) /\ A_HierRefines(E.act.tiers)
HierNearest == IsHier => A_HierNearestAmongSiblings(E.in.d, E.act.tiers)
J_JobDbDisjoint == Judge("JobDbDisjoint", JobDbDisjoint)
J_JobDbGrown == Judge("JobDbGrown", JobDbGrown)
J_JobDbCoreClustered == Judge("JobDbCoreClustered", JobDbCoreClustered)
J_Terminates == Judge("Terminates", Terminates)
J_NoPanic == Judge("NoPanic", NoPanic)
J_LkhPermutation == Judge("LkhPermutation", LkhPermutation)
J_LkhSameStart == Judge("LkhSameStart", LkhSameStart)
J_LkhNotWorse == Judge("LkhNotWorse", LkhNotWorse)
J_DbDisjoint == Judge("DbDisjoint", DbDisjoint)
J_DbGrown == Judge("DbGrown", DbGrown)
J_DbCoreClustered == Judge("DbCoreClustered", DbCoreClustered)
J_KmPartition == Judge("KmPartition", KmPartition)
J_KmNearest == Judge("KmNearest", KmNearest)
J_HierPartition == Judge("HierPartition", HierPartition)
J_HierNearest == Judge("HierNearest", HierNearest)
=============================================================================
