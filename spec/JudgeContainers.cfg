SPECIFICATION Spec
CHECK_DEADLOCK FALSE
INVARIANT J_ResultAsModel
INVARIANT J_TourAsModel
INVARIANT J_RegistryAsModel
INVARIANT J_OtherTourUntouched
INVARIANT J_OtherRegistryUntouched
