--------------------------- MODULE JudgeContainers ---------------------------
(* Compares, step by step, what the real Tour / RegistryContext did (act) with what Containers.tla says (exp). *)
EXTENDS Naturals, Sequences, FiniteSets, TLC, Json, IOUtils
Steps == ndJsonDeserialize(IOEnv.STEPS)
VARIABLE l
E == Steps[l]
Judge(name, ok) == ok \/ PrintT("VERDICT-FAIL " \o name \o " " \o ToString(l) \o " h" \o ToString(E.h) \o "s" \o ToString(E.step))
Init == l = 1
Next == l < Len(Steps) /\ l' = l + 1
Spec == Init /\ [][Next]_l
SetOf(s) == { s[i] : i \in 1..Len(s) }
TourEq(a, e) == IF e.none THEN a.none ELSE
   /\ ~a.none /\ a.acts = e.acts /\ SetOf(a.jobs) = SetOf(e.jobs) /\ a.jobCount = e.jobCount
   /\ a.jobActivityCount = e.jobActivityCount /\ a.total = e.total /\ a.hasJobs = e.hasJobs /\ a.legs = e.legs /\ a.endsInPlace
RegEq(a, e) == IF e.none THEN a.none ELSE
   /\ ~a.none /\ SetOf(a.available) = SetOf(e.available) /\ SetOf(a.groupsWithNext) = SetOf(e.groupsWithNext)
   /\ a.nextOk /\ a.nextRouteSubset
\* the operated instance behaves as the reference model
OnA == E.exp.op.on = "A"
ResultAsModel == E.act.res = E.exp.res
TourAsModel == TourEq(IF OnA THEN E.act.obs.tourA ELSE E.act.obs.tourB, IF OnA THEN E.exp.obs.tourA ELSE E.exp.obs.tourB)
RegistryAsModel == RegEq(IF OnA THEN E.act.obs.regA ELSE E.act.obs.regB, IF OnA THEN E.exp.obs.regA ELSE E.exp.obs.regB)
\* "deep copies are independent of their originals": the instance that was not operated on looks as the model says
OtherTourUntouched == TourEq(IF OnA THEN E.act.obs.tourB ELSE E.act.obs.tourA, IF OnA THEN E.exp.obs.tourB ELSE E.exp.obs.tourA)
OtherRegistryUntouched == RegEq(IF OnA THEN E.act.obs.regB ELSE E.act.obs.regA, IF OnA THEN E.exp.obs.regB ELSE E.exp.obs.regA)
J_ResultAsModel == Judge("ResultAsModel", ResultAsModel)
J_TourAsModel == Judge("TourAsModel", TourAsModel)
J_RegistryAsModel == Judge("RegistryAsModel", RegistryAsModel)
J_OtherTourUntouched == Judge("OtherTourUntouched", OtherTourUntouched)
J_OtherRegistryUntouched == Judge("OtherRegistryUntouched", OtherRegistryUntouched)
=============================================================================
