SPECIFICATION JSpec
CHECK_DEADLOCK FALSE
INVARIANT J_NoPanic
INVARIANT J_UniqueCoordinates
INVARIANT J_KeysAgreeWithNodes
INVARIANT J_LookupFindsExactly
INVARIANT J_WeightsFinite
INVARIANT J_ErrorsFinite
INVARIANT J_StorageWithinCapacity
INVARIANT J_CompactNeverGrows
INVARIANT J_CompactKeepsFour
INVARIANT J_CompactAsModel
INVARIANT J_GrowthAsModel
INVARIANT J_SmoothKeepsCells
INVARIANT J_AtLeastFour
