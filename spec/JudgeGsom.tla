-------------------------------- MODULE JudgeGsom --------------------------------
(* C19: one record per operation of a scenario: the coordinates before (pre) and after (post) as sequences of <<x, y>>, what the
   harness read off the real network after the operation (keys agree with nodes, lookups, finiteness, dimensions, storage sizes),
   judged with Gsom.tla: structure invariants, the compaction equals G_Compact, growth only by adjacent cells, smoothing keeps cells. *)
EXTENDS Gsom, Json, IOUtils
Recs == ndJsonDeserialize(IOEnv.RECS)
VARIABLE l
E == Recs[l]
Judge(name, ok) == ok \/ PrintT("VERDICT-FAIL " \o name \o " " \o ToString(l) \o " " \o E.id)
JInit == l = 1
JNext == l < Len(Recs) /\ l' = l + 1
JSpec == JInit /\ [][JNext]_l
Set(s) == { s[i] : i \in 1..Len(s) }
Alive == E.panic = ""
NoPanic == Alive
\* "node coordinates are unique and agree with node identity ... lookup by coordinate finds exactly that node"
UniqueCoordinates == Alive => Cardinality(Set(E.post)) = Len(E.post) /\ E.size = Len(E.post)
KeysAgreeWithNodes == Alive => E.keysAgree
LookupFindsExactly == Alive => E.lookupOk /\ E.absentNotFound
\* "all weights are finite and of the input dimension ... error measures stay finite"
WeightsFinite == Alive => E.weightsFinite /\ E.dimensionOk
ErrorsFinite == Alive => E.errorsFinite
\* "every node holds at most its capacity of individuals"
StorageWithinCapacity == Alive => E.maxStored <= E.nodeSize
\* "compaction never grows the map nor leaves fewer than four nodes"
IsCompact == Alive /\ E.op = "c"
CompactNeverGrows == IsCompact => Len(E.post) <= Len(E.pre)
CompactKeepsFour == IsCompact => (Len(E.pre) >= 4 => Len(E.post) >= 4)
\* conformance of the observed transitions with the model
CompactAsModel == IsCompact => Set(E.post) = G_Compact(Set(E.pre))
GrowthAsModel == (Alive /\ E.op \in {"b", "new"}) => G_GrownFrom(Set(E.pre), Set(E.post))
SmoothKeepsCells == (Alive /\ E.op = "s") => Set(E.post) = Set(E.pre)
AtLeastFour == Alive => Len(E.post) >= 4
J_NoPanic == Judge("NoPanic", NoPanic)
J_UniqueCoordinates == Judge("UniqueCoordinates", UniqueCoordinates)
J_KeysAgreeWithNodes == Judge("KeysAgreeWithNodes", KeysAgreeWithNodes)
J_LookupFindsExactly == Judge("LookupFindsExactly", LookupFindsExactly)
J_WeightsFinite == Judge("WeightsFinite", WeightsFinite)
J_ErrorsFinite == Judge("ErrorsFinite", ErrorsFinite)
J_StorageWithinCapacity == Judge("StorageWithinCapacity", StorageWithinCapacity)
J_CompactNeverGrows == Judge("CompactNeverGrows", CompactNeverGrows)
J_CompactKeepsFour == Judge("CompactKeepsFour", CompactKeepsFour)
J_CompactAsModel == Judge("CompactAsModel", CompactAsModel)
J_GrowthAsModel == Judge("GrowthAsModel", GrowthAsModel)
J_SmoothKeepsCells == Judge("SmoothKeepsCells", SmoothKeepsCells)
J_AtLeastFour == Judge("AtLeastFour", AtLeastFour)
=============================================================================
