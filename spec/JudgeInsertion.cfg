SPECIFICATION Spec
CHECK_DEADLOCK FALSE
INVARIANT J_BuiltAsGiven
INVARIANT J_ScheduleAsModel
INVARIANT J_SoundConcrete
INVARIANT J_SoundAny
INVARIANT J_SoundApplied
INVARIANT J_CompleteAny
INVARIANT J_PositionFeasible
INVARIANT J_QuoteUnassigned
INVARIANT J_QuoteTours
INVARIANT J_QuoteDistance
INVARIANT J_QuoteValue
INVARIANT J_DeltaUnassigned
INVARIANT J_DeltaTours
INVARIANT J_DeltaDistance
INVARIANT J_DeltaValue
INVARIANT J_FitDistanceModel
INVARIANT J_FitCostModel
INVARIANT J_DeltaCostNoWaiting
INVARIANT J_Info
