---------------------------- MODULE JudgeInsertion ----------------------------
(* Decides C06 and C20 on what the real evaluator did (harness bin `insertion`), one result record per state.          *)
EXTENDS InsertionWorlds
Res == ndJsonDeserialize(IOEnv.RESULTS)
VARIABLE l
R == Res[l]
W == Worlds[R.w]
Judge(name, ok) == ok \/ PrintT("VERDICT-FAIL " \o name \o " " \o ToString(l) \o " " \o ToString(R.id) \o R.goal)
Init == l = 1
Next == l < Len(Res) /\ l' = l + 1
Spec == Init /\ [][Next]_l

Strip(t) == [i \in 1..Len(t) |-> [j |-> t[i].j, part |-> t[i].part, w |-> t[i].w]]
X(a) == [j |-> a.j, part |-> a.part, w |-> a.w]
\* the harness really built the tour of the case (binding guard)
BuiltAsGiven == Strip(R.tourBuilt) = R.tour
\* the cached schedule of the built tour equals the model's walk (transcription cross-check, separates "model wrong" from "code wrong")
ScheduleAsModel == LET walk == I_TimeWalk(W, R.tour) IN
   \A i \in 1..Len(R.tour) : R.tourBuilt[i].arr = walk.arr[i] /\ R.tourBuilt[i].dep = walk.dep[i]

(* C06 soundness: "whenever the evaluator says a job can be placed at a position, carrying out that placement gives a tour *)
(* that an independent step-by-step simulation finds feasible" - single-task and pickup-delivery jobs                      *)
SoundConcrete == R.single => \A p \in 1..Len(R.concrete) :
   R.concrete[p].ok => LET a == R.concrete[p].acts[1] IN
                        /\ a.idx = p - 1 /\ a.w >= 1
                        /\ I_Sim(W, I_InsAt(R.tour, X(a), a.idx))
\* the activities of a success, applied in order (index = position in the tour as it is at that moment)
RECURSIVE ApplyActs(_, _, _)
ApplyActs(t, acts, i) == IF i > Len(acts) THEN t ELSE ApplyActs(I_InsAt(t, X(acts[i]), acts[i].idx), acts, i + 1)
SoundAny == R.any.ok => LET t == ApplyActs(R.tour, R.any.acts, 1) IN
                          (\A i \in 1..Len(R.any.acts) : R.any.acts[i].w >= 1) /\ I_WellFormed(W, t) /\ I_Sim(W, t)
SoundApplied == R.applied => LET t == Strip(R.tourAfter) IN
                          (\A i \in 1..Len(t) : t[i].w >= 1) /\ I_WellFormed(W, t) /\ I_Sim(W, t) /\ I_InTour(t, R.j)
(* C06 completeness: "in exhaustive best-insertion mode, for single-task jobs constrained by time windows, shift times and *)
(* capacity, it reports failure only when the simulation finds no feasible position at all, and the position it returns is *)
(* one of the feasible ones"                                                                                               *)
CompleteAny == (R.single /\ ~R.any.ok) => I_FeasiblePositions(W, R.tour, R.j) = {}
PositionFeasible == (R.single /\ R.any.ok) => R.any.acts[1].idx \in I_FeasiblePositions(W, R.tour, R.j)
\* stronger than the statement (not judged, measured): per position agreement of Concrete(p) with the simulation
ConcreteIncomplete == { p \in 1..Len(R.concrete) : ~R.concrete[p].ok /\ (p - 1) \in I_FeasiblePositions(W, R.tour, R.j) }

(* C20: "the cost the evaluator quotes for an insertion equals the actual change of that objective's value once the        *)
(* insertion is carried out" - unassigned, tours, distance (goal A); value, unassigned and, without waiting, cost (goal B) *)
After == Strip(R.tourAfter)
QuoteK(k) == R.any.costK[k]
DeltaK(k) == R.fitAfter[k] - R.fitBefore[k]
QuoteJudged == R.any.ok /\ R.applied
\* the quote equals the model's value of the change ...
\* goal E = [unassigned, maximize-tours (fitness = minus the number of tours), distance]: goal A with the sign of the tours layer turned
GA == R.goal \in {"A", "E"}
QuoteUnassigned == QuoteJudged => QuoteK(IF GA THEN 1 ELSE 2) = 0 - 1000
QuoteTours == (QuoteJudged /\ GA) => QuoteK(2) = (IF R.goal = "E" THEN 0 - 1000 ELSE 1000) * (I_FitTours(After) - I_FitTours(R.tour))
QuoteDistance == (QuoteJudged /\ GA /\ R.single) =>
   QuoteK(3) = 1000 * I_QuoteDistance(W, R.tour, X(R.any.acts[1]), R.any.acts[1].idx)
QuoteValue == (QuoteJudged /\ R.goal = "B") => QuoteK(1) = 1000 * (I_FitValue(W, After) - I_FitValue(W, R.tour))
\* ... and the change the code itself measures after really inserting (cheapest recreate inserts at a minimal-cost position,
\* so the realised change equals the quote layer by layer for the additive layers)
DeltaUnassigned == QuoteJudged => DeltaK(IF GA THEN 1 ELSE 2) = QuoteK(IF GA THEN 1 ELSE 2)
DeltaTours == (QuoteJudged /\ GA) => DeltaK(2) = QuoteK(2)
DeltaDistance == (QuoteJudged /\ GA) => DeltaK(3) = QuoteK(3)
DeltaValue == (QuoteJudged /\ R.goal = "B") => DeltaK(1) = QuoteK(1)
\* model side of the fitness: the code's fitness after equals the model's objective values of the tour after
FitDistanceModel == (R.applied /\ GA) => R.fitAfter[3] = 1000 * I_TourDistance(W, After)
FitCostModel == (R.applied /\ R.goal = "B") => R.fitAfter[3] = 1000 * I_FitCost(W, After)
\* combined cost objective: "the same equality holds whenever the tour contains no waiting time before and after"
DeltaCostNoWaiting == (QuoteJudged /\ R.goal = "B" /\ I_NoWaiting(W, R.tour) /\ I_NoWaiting(W, After)) => DeltaK(3) = QuoteK(3)

J_BuiltAsGiven == Judge("BuiltAsGiven", BuiltAsGiven)
J_ScheduleAsModel == Judge("ScheduleAsModel", ScheduleAsModel)
J_SoundConcrete == Judge("SoundConcrete", SoundConcrete)
J_SoundAny == Judge("SoundAny", SoundAny)
J_SoundApplied == Judge("SoundApplied", SoundApplied)
J_CompleteAny == Judge("CompleteAny", CompleteAny)
J_PositionFeasible == Judge("PositionFeasible", PositionFeasible)
J_QuoteUnassigned == Judge("QuoteUnassigned", QuoteUnassigned)
J_QuoteTours == Judge("QuoteTours", QuoteTours)
J_QuoteDistance == Judge("QuoteDistance", QuoteDistance)
J_QuoteValue == Judge("QuoteValue", QuoteValue)
J_DeltaUnassigned == Judge("DeltaUnassigned", DeltaUnassigned)
J_DeltaTours == Judge("DeltaTours", DeltaTours)
J_DeltaDistance == Judge("DeltaDistance", DeltaDistance)
J_DeltaValue == Judge("DeltaValue", DeltaValue)
J_FitDistanceModel == Judge("FitDistanceModel", FitDistanceModel)
J_FitCostModel == Judge("FitCostModel", FitCostModel)
J_DeltaCostNoWaiting == Judge("DeltaCostNoWaiting", DeltaCostNoWaiting)
\* measured, not judged
J_Info == PrintT("INFO " \o ToString(l) \o " incompleteConcrete=" \o ToString(Cardinality(IF R.single THEN ConcreteIncomplete ELSE {}))
                 \o " feasible=" \o ToString(IF R.single THEN Cardinality(I_FeasiblePositions(W, R.tour, R.j)) ELSE 0 - 1)
                 \o " anyOk=" \o ToString(R.any.ok) \o " nowait=" \o ToString(I_NoWaiting(W, R.tour)))
=============================================================================
