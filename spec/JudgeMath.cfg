SPECIFICATION JSpec
CHECK_DEADLOCK FALSE
INVARIANT J_NoPanic
INVARIANT J_RemedianRefusesOnlyWhenFull
INVARIANT J_RemedianMedianObserved
INVARIANT J_RemedianRankAtPowers
INVARIANT J_RemedianAsModel
INVARIANT J_StatsMean
INVARIANT J_StatsVariance
INVARIANT J_StatsDeviation
INVARIANT J_StatsCv
INVARIANT J_RelDistAsDefined
INVARIANT J_RelDistSymmetric
INVARIANT J_WeightedPicksPositiveWeight
INVARIANT J_WeightedReachesEveryPositiveWeight
INVARIANT J_UniformIntInClosedRange
INVARIANT J_UniformRealInRange
INVARIANT J_HitRespectsCertainty
INVARIANT J_ArgmaxPicksMaximum
INVARIANT J_ArgmaxReachesEveryMaximum
INVARIANT J_SamplingIsSubsequenceOfRightSize
INVARIANT J_RangeSamplingIsAlignedBlock
INVARIANT J_SearchReturnsBestProbed
INVARIANT J_SearchEvaluatesOnce
INVARIANT J_NoiseOffKeepsValue
INVARIANT J_NoiseWithinRange
