------------------------------- MODULE JudgeMath -------------------------------
(* C18: observations of the real numeric helpers (act) for TLC-generated cases (case), judged against MathUtil.tla. *)
EXTENDS MathUtil, Json, IOUtils
Recs == ndJsonDeserialize(IOEnv.RECS)
VARIABLE l
E == Recs[l]
C == E.case
A == E.act
Judge(name, ok) == ok \/ PrintT("VERDICT-FAIL " \o name \o " " \o ToString(l) \o " " \o E.id)
JInit == l = 1
JNext == l < Len(Recs) /\ l' = l + 1
JSpec == JInit /\ [][JNext]_l
Alive == A.panic = ""
NoPanic == Alive
Is(kind) == C.kind = kind /\ Alive
MinOf(a, b) == IF a < b THEN a ELSE b
(* median estimator *)
Cap == M_RCapacity(C.base, C.exp)
Accepted(k) == SubSeq(C.xs, 1, MinOf(k, Cap))
\* "Returns true if the observation was added, false if the buffer is full"; "Max processed values is base^exponent"
RemedianRefusesOnlyWhenFull == Is("remedian") => \A k \in 1..Len(C.xs) : A.added[k] = (k <= Cap)
RemedianMedianObserved == Is("remedian") => A.before = <<>> /\ \A k \in 1..Len(C.xs) : A.medians[k] # <<>> /\ \E i \in 1..Len(Accepted(k)) : Accepted(k)[i] = A.medians[k][1]
RemedianRankAtPowers == Is("remedian") => \A j \in 0..C.exp : LET k == M_Pow(C.base, j) IN
                           k <= Len(C.xs) /\ A.medians[k] # <<>> => M_RankOk(C.base, j, Accepted(k), A.medians[k][1])
RemedianAsModel == Is("remedian") => \A k \in 1..Len(C.xs) : A.medians[k] = M_RMedian(M_RRun(C.base, C.exp, SubSeq(C.xs, 1, k)))
(* statistics: mean, population variance, standard deviation, coefficient of variation (0 when the mean is 0) *)
N == Len(C.xs)
StatsMean == Is("stats") => IF N = 0 THEN A.mean4 = 0 /\ A.meanIter4 = 0 ELSE M_Near(A.mean4, 10000, M_Sum(C.xs), N) /\ M_Near(A.meanIter4, 10000, M_Sum(C.xs), N)
StatsVariance == Is("stats") /\ N > 0 => A.finite /\ M_Near(A.var4, 10000, M_VarNum(C.xs), N * N)
StatsDeviation == Is("stats") /\ N > 0 => A.finite /\ M_NearSqrt(A.sd3, 1000, M_VarNum(C.xs), N * N)
StatsCv == Is("stats") /\ N > 0 => /\ A.finite /\ A.cv2 = A.cvSafe2
                                   /\ IF M_Sum(C.xs) = 0 THEN A.cv2 = 0 ELSE M_NearSqrt(A.cv2, 100, M_VarNum(C.xs), M_Sum(C.xs) * M_Sum(C.xs))
(* relative distance *)
RelDistAsDefined == Is("reldist") => M_NearSqrt(A.d3, 1000, M_RelSq16(C.a, C.b), 16)
RelDistSymmetric == Is("reldist") => A.d3 = A.rev3 /\ A.self3 = 0 /\ A.d3 >= 0
(* random helpers *)
Draws == A.draws
WeightedPicksPositiveWeight == Is("weighted") => \A i \in 1..Len(Draws) : Draws[i] \in 0..(Len(C.weights) - 1) /\ C.weights[Draws[i] + 1] > 0
WeightedReachesEveryPositiveWeight == Is("weighted") => \A w \in 1..Len(C.weights) : C.weights[w] > 0 => \E i \in 1..Len(Draws) : Draws[i] = w - 1
UniformIntInClosedRange == Is("uniform") => (\A i \in 1..Len(Draws) : Draws[i] >= C.min /\ Draws[i] <= C.max) /\ (\A v \in C.min..C.max : \E i \in 1..Len(Draws) : Draws[i] = v)
UniformRealInRange == Is("uniform") => A.realsInside /\ A.realsSpread
HitRespectsCertainty == Is("hit") => (C.p10 <= 0 => A.hits = 0) /\ (C.p10 >= 10 => A.hits = A.draws) /\ (C.p10 = 5 => A.hits > 0 /\ A.hits < A.draws)
IsMaxIndex(i) == i \in 0..(Len(C.values) - 1) /\ \A j \in 1..Len(C.values) : C.values[j] <= C.values[i + 1]
ArgmaxPicksMaximum == Is("argmax") => \A i \in 1..Len(Draws) : IF C.values = <<>> THEN Draws[i] = 0 - 1 ELSE IsMaxIndex(Draws[i])
ArgmaxReachesEveryMaximum == Is("argmax") => \A m \in 0..(Len(C.values) - 1) : IsMaxIndex(m) => \E i \in 1..Len(Draws) : Draws[i] = m
(* sampling iterators *)
Increasing(s) == \A i \in 1..(Len(s) - 1) : s[i] < s[i + 1]
Within(s, n) == \A i \in 1..Len(s) : s[i] >= 0 /\ s[i] < n
SamplingIsSubsequenceOfRightSize == Is("sampling") => \A r \in 1..Len(A.runs) : Increasing(A.runs[r]) /\ Within(A.runs[r], C.n) /\ Len(A.runs[r]) = MinOf(C.amount, C.n)
RangeSamplingIsAlignedBlock == Is("range") => \A r \in 1..Len(A.runs) : LET s == A.runs[r] IN
    /\ Within(s, C.n) /\ Len(s) = MinOf(C.size, C.n)
    /\ \A i \in 1..(Len(s) - 1) : s[i + 1] = s[i] + 1
    /\ (s # <<>> => s[1] % C.size = 0)
\* sampling search: something is found iff there is something to probe; nothing is evaluated twice; the best of the probed is returned
SearchReturnsBestProbed == Is("search") =>
    IF C.data = <<>> \/ C.size = 0 THEN A.found = 0 - 1
    ELSE /\ A.found \in 0..(Len(C.data) - 1) /\ Within(A.evaluated, Len(C.data))
         /\ \E i \in 1..Len(A.evaluated) : A.evaluated[i] = A.found
         /\ \A i \in 1..Len(A.evaluated) : C.data[A.evaluated[i] + 1] <= C.data[A.found + 1]
SearchEvaluatesOnce == Is("search") => \A i, j \in 1..Len(A.evaluated) : i # j => A.evaluated[i] # A.evaluated[j]
(* noise: "value + value * sample_from(range)" / "value * sample_from(range)"; units: value in 1, range in 1/10, draws in 1/1000 *)
Lo100 == IF C.value * C.lo10 < C.value * C.hi10 THEN C.value * C.lo10 * 100 ELSE C.value * C.hi10 * 100
Hi100 == IF C.value * C.lo10 < C.value * C.hi10 THEN C.value * C.hi10 * 100 ELSE C.value * C.lo10 * 100
NoiseOffKeepsValue == Is("noise") /\ C.p10 = 0 => \A i \in 1..Len(Draws) : Draws[i] = C.value * 1000
NoiseWithinRange == Is("noise") /\ C.p10 = 10 => \A i \in 1..Len(Draws) :
    IF C.value = 0 THEN Draws[i] >= C.lo10 * 100 - 1 /\ Draws[i] <= C.hi10 * 100 + 1
    ELSE LET base == IF C.addition THEN C.value * 1000 ELSE 0 IN Draws[i] >= base + Lo100 - 1 /\ Draws[i] <= base + Hi100 + 1
J_NoPanic == Judge("NoPanic", NoPanic)
J_RemedianRefusesOnlyWhenFull == Judge("RemedianRefusesOnlyWhenFull", RemedianRefusesOnlyWhenFull)
J_RemedianMedianObserved == Judge("RemedianMedianObserved", RemedianMedianObserved)
J_RemedianRankAtPowers == Judge("RemedianRankAtPowers", RemedianRankAtPowers)
J_RemedianAsModel == Judge("RemedianAsModel", RemedianAsModel)
J_StatsMean == Judge("StatsMean", StatsMean)
J_StatsVariance == Judge("StatsVariance", StatsVariance)
J_StatsDeviation == Judge("StatsDeviation", StatsDeviation)
J_StatsCv == Judge("StatsCv", StatsCv)
J_RelDistAsDefined == Judge("RelDistAsDefined", RelDistAsDefined)
J_RelDistSymmetric == Judge("RelDistSymmetric", RelDistSymmetric)
J_WeightedPicksPositiveWeight == Judge("WeightedPicksPositiveWeight", WeightedPicksPositiveWeight)
J_WeightedReachesEveryPositiveWeight == Judge("WeightedReachesEveryPositiveWeight", WeightedReachesEveryPositiveWeight)
J_UniformIntInClosedRange == Judge("UniformIntInClosedRange", UniformIntInClosedRange)
J_UniformRealInRange == Judge("UniformRealInRange", UniformRealInRange)
J_HitRespectsCertainty == Judge("HitRespectsCertainty", HitRespectsCertainty)
J_ArgmaxPicksMaximum == Judge("ArgmaxPicksMaximum", ArgmaxPicksMaximum)
J_ArgmaxReachesEveryMaximum == Judge("ArgmaxReachesEveryMaximum", ArgmaxReachesEveryMaximum)
J_SamplingIsSubsequenceOfRightSize == Judge("SamplingIsSubsequenceOfRightSize", SamplingIsSubsequenceOfRightSize)
J_RangeSamplingIsAlignedBlock == Judge("RangeSamplingIsAlignedBlock", RangeSamplingIsAlignedBlock)
J_SearchReturnsBestProbed == Judge("SearchReturnsBestProbed", SearchReturnsBestProbed)
J_SearchEvaluatesOnce == Judge("SearchEvaluatesOnce", SearchEvaluatesOnce)
J_NoiseOffKeepsValue == Judge("NoiseOffKeepsValue", NoiseOffKeepsValue)
J_NoiseWithinRange == Judge("NoiseWithinRange", NoiseWithinRange)
=============================================================================
