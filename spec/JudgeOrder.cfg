SPECIFICATION Spec
CHECK_DEADLOCK FALSE
INVARIANT J_CmpAsModel
INVARIANT J_Antisymmetric
INVARIANT J_Reflexive
INVARIANT J_SumAsModel
INVARIANT J_DiffAsModel
INVARIANT J_AddSubInverse
INVARIANT J_FitnessReported
