------------------------------ MODULE JudgeOrder ------------------------------
(* C09: what InsertionCost / Goal did (act) against what Order.tla says (exp, written by GenOrder.tla). *)
EXTENDS Order, Json, IOUtils
Recs == ndJsonDeserialize(IOEnv.RECS)
VARIABLE l
E == Recs[l]
Judge(name, ok) == ok \/ PrintT("VERDICT-FAIL " \o name \o " " \o ToString(l) \o " " \o E.exp.kind \o ToString(E.act.i))
Init == l = 1
Next == l < Len(Recs) /\ l' = l + 1
Spec == Init /\ [][Next]_l
IsCost == E.exp.kind = "cost"
\* the code's comparison is the model's comparison (hence, by the laws checked on the model, a total order / preorder)
CmpAsModel == E.act.cmp = E.exp.cmp
\* antisymmetry observed directly: cmp(a,b) = reverse(cmp(b,a))
Antisymmetric == E.act.rev = 0 - E.act.cmp
\* reflexivity observed directly (goals) / equality consistent with comparison (costs)
Reflexive == IF IsCost THEN (E.act.eq <=> E.act.cmp = 0) ELSE E.act.self = 0
\* element-wise addition and subtraction with zero padding (values; the sign of zero is not demanded)
SumAsModel == (IsCost /\ E.exp.alg) => O_SameValue(E.act.sum, E.exp.sum)
DiffAsModel == (IsCost /\ E.exp.alg) => O_SameValue(E.act.diff, E.exp.diff)
\* "(x + y) - y == x up to the sign of zero"
AddSubInverse == (IsCost /\ E.exp.alg) => O_SameValue(E.act.back, E.exp.x)
\* the fitness vector the goal reports is the one the objectives returned, in layer order
FitnessReported == (~IsCost) => O_SameValue(E.act.fitA, E.exp.a)
J_CmpAsModel == Judge("CmpAsModel", CmpAsModel)
J_Antisymmetric == Judge("Antisymmetric", Antisymmetric)
J_Reflexive == Judge("Reflexive", Reflexive)
J_SumAsModel == Judge("SumAsModel", SumAsModel)
J_DiffAsModel == Judge("DiffAsModel", DiffAsModel)
J_AddSubInverse == Judge("AddSubInverse", AddSubInverse)
J_FitnessReported == Judge("FitnessReported", FitnessReported)
=============================================================================
