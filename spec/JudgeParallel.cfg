SPECIFICATION JSpec
CHECK_DEADLOCK FALSE
INVARIANT J_NoPanic
INVARIANT J_SameAsSequential
INVARIANT J_Minimal
