---------------------------- MODULE JudgeParallel ----------------------------
(* C15: for every case and goal the costs of all single (route, job) evaluations (pairs: cost vector in 1/1000, <<>> = no feasible
   position) and the cost evaluate_all returned under every pool size; the minimum is recomputed here. *)
EXTENDS Naturals, Integers, Sequences, SequencesExt, FiniteSets, TLC, Json, IOUtils
Recs == ndJsonDeserialize(IOEnv.RECS)
VARIABLE l
E == Recs[l]
Judge(name, ok) == ok \/ PrintT("VERDICT-FAIL " \o name \o " " \o ToString(l) \o " " \o E.id)
JInit == l = 1
JNext == l < Len(Recs) /\ l' = l + 1
JSpec == JInit /\ [][JNext]_l
\* lexicographic order on cost vectors of equal length; <<>> (failure) is worse than everything
RECURSIVE LexLess(_, _)
LexLess(a, b) == IF a = <<>> \/ b = <<>> THEN FALSE ELSE IF a[1] < b[1] THEN TRUE ELSE IF a[1] > b[1] THEN FALSE ELSE LexLess(Tail(a), Tail(b))
Better(a, b) == IF a = <<>> THEN FALSE ELSE IF b = <<>> THEN TRUE ELSE LexLess(a, b)
MinCost(s) == FoldLeft(LAMBDA m, x : IF Better(x, m) THEN x ELSE m, <<>>, s)
TheMin == MinCost(E.pairs)
NoPanic == E.panic = ""
\* "the chosen insertion always has the same, minimal cost vector as a sequential scan over the same jobs and tours"
SameAsSequential == NoPanic => \A i \in 1..Len(E.runs) : E.runs[i].cost = E.runs[1].cost
Minimal == NoPanic => \A i \in 1..Len(E.runs) : E.runs[i].cost = TheMin
J_NoPanic == Judge("NoPanic", NoPanic)
J_SameAsSequential == Judge("SameAsSequential", SameAsSequential)
J_Minimal == Judge("Minimal", Minimal)
=============================================================================
