SPECIFICATION JSpec
CHECK_DEADLOCK FALSE
INVARIANT J_NoPanic
INVARIANT J_RankedOffered
INVARIANT J_BestNoWorse
INVARIANT J_Sorted
INVARIANT J_SizeBound
INVARIANT J_NonEmptyOnceOffered
INVARIANT J_SelectOffered
INVARIANT J_SelectSomething
INVARIANT J_AsModel
