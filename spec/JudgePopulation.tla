---------------------------- MODULE JudgePopulation ----------------------------
(* C08: observations of the real populations (act) after every operation of a TLC-generated history, judged by the properties of
   Population.tla evaluated on the OBSERVED ranking / selection; the model's own expectation (exp) is compared as well and
   reported as conformance.  One record per (history, step): cfg, offered (fitness of everything offered so far), op, exp, act. *)
EXTENDS Naturals, Integers, Sequences, FiniteSets, TLC, Json, IOUtils
Recs == ndJsonDeserialize(IOEnv.RECS)
VARIABLE l
E == Recs[l]
Judge(name, ok) == ok \/ PrintT("VERDICT-FAIL " \o name \o " " \o ToString(l) \o " " \o E.id)
JInit == l = 1
JNext == l < Len(Recs) /\ l' = l + 1
JSpec == JInit /\ [][JNext]_l
Cmp(f, g) == IF f[1] < g[1] THEN 0 - 1 ELSE IF f[1] > g[1] THEN 1 ELSE IF f[2] < g[2] THEN 0 - 1 ELSE IF f[2] > g[2] THEN 1 ELSE 0
Offered == 1..Len(E.offered)
R == E.act.ranked
Alive == E.act.panic = ""
IdsOk == \A i \in 1..Len(R) : R[i] \in Offered
NoPanic == Alive
RankedOffered == Alive => IdsOk
BestNoWorse == (Alive /\ IdsOk /\ R # <<>>) => \A id \in Offered : Cmp(E.offered[R[1]], E.offered[id]) # 1
Sorted == (Alive /\ IdsOk) => \A i \in 1..(Len(R) - 1) : Cmp(E.offered[R[i]], E.offered[R[i + 1]]) # 1
SizeBound == Alive => Len(R) <= E.cfg.maxSize /\ E.act.size <= E.cfg.maxSize
NonEmptyOnceOffered == (Alive /\ E.offered # <<>>) => R # <<>> /\ E.act.size > 0
SelectOffered == (Alive /\ E.op.name = "select") => \A i \in 1..Len(E.act.selected) : E.act.selected[i] \in Offered
SelectSomething == (Alive /\ E.op.name = "select" /\ E.offered # <<>>) => E.act.selected # <<>>
\* conformance with the model (not a verdict of the property)
AsModel == Alive => /\ R = E.exp.ranked /\ E.act.size = E.exp.size /\ E.act.phase = E.exp.phase
                    /\ (E.op.name \in {"add", "add_all"} => (E.act.improved = 1) = E.exp.improved)
J_NoPanic == Judge("NoPanic", NoPanic)
J_RankedOffered == Judge("RankedOffered", RankedOffered)
J_BestNoWorse == Judge("BestNoWorse", BestNoWorse)
J_Sorted == Judge("Sorted", Sorted)
J_SizeBound == Judge("SizeBound", SizeBound)
J_NonEmptyOnceOffered == Judge("NonEmptyOnceOffered", NonEmptyOnceOffered)
J_SelectOffered == Judge("SelectOffered", SelectOffered)
J_SelectSomething == Judge("SelectSomething", SelectSomething)
J_AsModel == Judge("AsModel", AsModel)
=============================================================================
