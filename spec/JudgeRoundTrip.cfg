SPECIFICATION JSpec
CHECK_DEADLOCK FALSE
INVARIANT J_NoPanic
INVARIANT J_DocParses
INVARIANT J_DocFixpoint
INVARIANT J_DocKeptByFirstPass
INVARIANT J_InitReadable
INVARIANT J_InitSameJobsPerShift
INVARIANT J_InitSameOrder
INVARIANT J_InitSameActivities
INVARIANT J_InitSameUnassigned
INVARIANT J_CsvImports
INVARIANT J_CsvJobsAsTables
INVARIANT J_CsvVehiclesAsTables
INVARIANT J_CsvValid
