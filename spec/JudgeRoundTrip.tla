---------------------------- MODULE JudgeRoundTrip ----------------------------
(* C11: results of the three round trips judged by RoundTrip.tla. One record per document / solve / table pair. *)
EXTENDS RoundTrip, Json, IOUtils
Recs == ndJsonDeserialize(IOEnv.RECS)
VARIABLE l
E == Recs[l]
Judge(name, ok) == ok \/ PrintT("VERDICT-FAIL " \o name \o " " \o ToString(l) \o " " \o E.id)
JInit == l = 1
JNext == l < Len(Recs) /\ l' = l + 1
JSpec == JInit /\ [][JNext]_l
NoPanic == E.status # "panic"
\* documents
IsDoc == E.kind = "doc"
DocParses == IsDoc => E.status = "ok"
DocFixpoint == (IsDoc /\ E.status = "ok") => E.fixpoint
\* the documents offered are written the way the serialiser writes them (canonical names, absent = null): the first pass keeps every member
DocKeptByFirstPass == (IsDoc /\ E.status = "ok") => E.firstPassSame
\* initial solution
IsInit == E.kind = "init" /\ E.status \in {"ok", "init-err", "rewrite-err"}
InitReadable == IsInit => E.status = "ok"                    \* "is read without error"
InitOk == E.kind = "init" /\ E.status = "ok"
InitSameJobsPerShift == InitOk => RT_SameJobsPerShift(E.S, E.S2)
InitSameOrder == InitOk => RT_SameOrder(E.S, E.S2)
InitSameActivities == InitOk => RT_SameActivities(E.S, E.S2)
InitSameUnassigned == InitOk => RT_SameUnassigned(E.S, E.S2)
\* csv import
IsCsv == E.kind = "csv"
CsvImports == IsCsv => E.status = "ok"
CsvOk == IsCsv /\ E.status = "ok"
CsvJobsAsTables == CsvOk => RT_JobsAsTables(E.rows, E.P)
CsvVehiclesAsTables == CsvOk => RT_VehiclesAsTables(E.vrows, E.P)
CsvValid == (CsvOk /\ RT_TablesWellFormed(E.rows, E.vrows)) => E.valid
J_NoPanic == Judge("NoPanic", NoPanic)
J_DocParses == Judge("DocParses", DocParses)
J_DocFixpoint == Judge("DocFixpoint", DocFixpoint)
J_DocKeptByFirstPass == Judge("DocKeptByFirstPass", DocKeptByFirstPass)
J_InitReadable == Judge("InitReadable", InitReadable)
J_InitSameJobsPerShift == Judge("InitSameJobsPerShift", InitSameJobsPerShift)
J_InitSameOrder == Judge("InitSameOrder", InitSameOrder)
J_InitSameActivities == Judge("InitSameActivities", InitSameActivities)
J_InitSameUnassigned == Judge("InitSameUnassigned", InitSameUnassigned)
J_CsvImports == Judge("CsvImports", CsvImports)
J_CsvJobsAsTables == Judge("CsvJobsAsTables", CsvJobsAsTables)
J_CsvVehiclesAsTables == Judge("CsvVehiclesAsTables", CsvVehiclesAsTables)
J_CsvValid == Judge("CsvValid", CsvValid)
=============================================================================
