SPECIFICATION Spec
CHECK_DEADLOCK FALSE
INVARIANT J_BuildAsModel
INVARIANT J_AnswersAsModel
INVARIANT J_PragmaticAsModel
INVARIANT J_ApproxSymmetric
INVARIANT J_CoordIndexIsBijection
INVARIANT J_ApproxSeparates
INVARIANT J_ApproxDurationFromSpeed
