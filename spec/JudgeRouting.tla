----------------------------- MODULE JudgeRouting -----------------------------
(* C16: answers of the real providers (act) against Routing.tla (exp). One record per case. *)
EXTENDS Naturals, Integers, Sequences, FiniteSets, TLC, Json, IOUtils
Recs == ndJsonDeserialize(IOEnv.RECS)
VARIABLE l
E == Recs[l]
Judge(name, ok) == ok \/ PrintT("VERDICT-FAIL " \o name \o " " \o ToString(l) \o " " \o E.kind \o ToString(E.c))
Init == l = 1
Next == l < Len(Recs) /\ l' = l + 1
Spec == Init /\ [][Next]_l
Abs(x) == IF x < 0 THEN 0 - x ELSE x
IsCore == E.kind = "core"
\* "inconsistent matrix sets are rejected when the provider is built" (and consistent ones are not)
BuildAsModel == IsCore => (IF E.exp.ok THEN E.act.built = "ok" ELSE E.act.built = "err")
\* every answer equals the supplied entry: duration scaled (exact rational, tolerance 1/1000 of a unit for the float division), distance unscaled
AnswersAsModel == (IsCore /\ E.exp.ok /\ E.act.built = "ok") =>
   /\ Len(E.act.answers) = Len(E.exp.queries)
   /\ \A i \in 1..Len(E.exp.queries) : LET q == E.exp.queries[i] a == E.act.answers[i] IN
        /\ Abs(a.durK - q.dur.num * 1000) <= 1
        /\ Abs(a.durArrK - q.dur.num * 1000) <= 1
        /\ a.distK = q.dist * 1000
        /\ a.size = E.exp.m[1].n
\* pragmatic layer: the matrix of the vehicle's profile NAME, durations scaled, flagged entries negative
PragmaticAsModel == (E.kind = "prag") =>
   /\ E.act.built = "ok" /\ Len(E.act.answers) = Len(E.exp.queries)
   /\ \A i \in 1..Len(E.exp.queries) : LET q == E.exp.queries[i] a == E.act.answers[i] IN
        IF q.neg THEN a.durK < 0 /\ a.distK < 0 ELSE a.durK = q.dur * 1000 /\ a.distK = q.dist * 1000
\* "coordinate-based approximation is symmetric with a zero diagonal"
ApproxSymmetric == (E.kind = "approx") =>
   \A i \in 1..Len(E.act.dist) : /\ E.act.dist[i][i] = 0 /\ E.act.dur[i][i] = 0
                                  /\ \A j \in 1..Len(E.act.dist) : E.act.dist[i][j] = E.act.dist[j][i] /\ E.act.dur[i][j] = E.act.dur[j][i]
\* the coordinate index numbers the distinct locations of a problem: equal coordinates share an index, different ones never do,
\* the indices are 0..n-1, the approximated matrix has one row per distinct location and lookup by index gives the location back
Pts == E.exp.points
CoordIndexIsBijection == (E.kind = "approx") =>
   /\ Len(E.act.index) = Len(Pts)
   /\ \A i, j \in 1..Len(Pts) : (E.act.index[i] = E.act.index[j]) <=> (Pts[i] = Pts[j])
   /\ E.act.unique = Cardinality({ Pts[i] : i \in 1..Len(Pts) })
   /\ \A i \in 1..Len(Pts) : E.act.index[i] >= 0 /\ E.act.index[i] < E.act.unique
   /\ Len(E.act.dist) = E.act.unique /\ Len(E.act.dur) = E.act.unique
   /\ Len(E.act.back) = E.act.unique /\ \A k \in 1..Len(E.act.back) : E.act.back[k] >= 1 /\ E.act.back[k] <= Len(Pts) /\ E.act.index[E.act.back[k]] = k - 1
\* different locations are a positive distance apart (the closest generated ones about three metres)
ApproxSeparates == (E.kind = "approx") => \A i, j \in 1..Len(E.act.dist) : i # j => E.act.dist[i][j] > 0
\* durations are distances divided by the profile's speed (10 by default), both rounded
ApproxDurationFromSpeed == (E.kind = "approx") => LET sp == IF E.act.profile = "slow" THEN 5 ELSE 10 IN
   \A i, j \in 1..Len(E.act.dist) : LET x == E.act.dur[i][j] * sp - E.act.dist[i][j] IN x <= sp /\ 0 - x <= sp
J_BuildAsModel == Judge("BuildAsModel", BuildAsModel)
J_AnswersAsModel == Judge("AnswersAsModel", AnswersAsModel)
J_PragmaticAsModel == Judge("PragmaticAsModel", PragmaticAsModel)
J_ApproxSymmetric == Judge("ApproxSymmetric", ApproxSymmetric)
J_CoordIndexIsBijection == Judge("CoordIndexIsBijection", CoordIndexIsBijection)
J_ApproxSeparates == Judge("ApproxSeparates", ApproxSeparates)
J_ApproxDurationFromSpeed == Judge("ApproxDurationFromSpeed", ApproxDurationFromSpeed)
=============================================================================
