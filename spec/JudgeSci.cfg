SPECIFICATION JSpec
CHECK_DEADLOCK FALSE
INVARIANT J_Parsed
INVARIANT J_FleetAsFile
INVARIANT J_CustomersAsFile
INVARIANT J_IdsAsFile
INVARIANT J_DistancesEuclidean
INVARIANT J_SolveReturns
INVARIANT J_RoutesPartition
INVARIANT J_RoutesFeasible
INVARIANT J_ServedWhenPossible
INVARIANT J_InitRoundTrip
