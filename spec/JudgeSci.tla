------------------------------- MODULE JudgeSci -------------------------------
(* C13: the core problem read from each generated instance text (P), the routes of a short solve and the re-read text solution,
   judged by Scientific.tla against the abstract instance the text was printed from. *)
EXTENDS Scientific, Json, IOUtils
Recs == ndJsonDeserialize(IOEnv.RECS)
VARIABLE l
E == Recs[l]
Judge(name, ok) == ok \/ PrintT("VERDICT-FAIL " \o name \o " " \o ToString(l) \o " " \o E.id)
JInit == l = 1
JNext == l < Len(Recs) /\ l' = l + 1
JSpec == JInit /\ [][JNext]_l
Read == E.status = "ok"
Parsed == Read                                                          \* a well-formed instance is read without error or panic
FleetAsFile == Read => S_FleetAsFile(E.inst, E.P)
CustomersAsFile == Read => S_CustomersAsFile(E.inst, E.P) /\ (\A i \in 1..Len(E.shapes) : E.shapes[i] = <<1, 1>>)
IdsAsFile == Read => S_IdsAsFile(E.inst, E.P)
DistancesEuclidean == Read => S_LocationsAsFile(E.inst, E.P) /\ S_DistancesEuclidean(E.inst, E.P) /\ E.durEqualsDist
Solved == Read /\ E.solve = "ok"
SolveReturns == Read => E.solve = "ok"
RoutesPartition == Solved => S_RoutesPartition(E.inst, E.routes, E.unassigned)
\* "capacity and time windows bind exactly as the file says": what the solver returns is feasible for the file's data
RoutesFeasible == (Solved /\ S_LocationsAsFile(E.inst, E.P) /\ S_RoutesPartition(E.inst, E.routes, E.unassigned)) => S_RoutesFeasible(E.inst, E.P, E.routes)
\* a customer whose demand fits and whose window can be met from the depot alone is not left unassigned while a vehicle is free
ServedWhenPossible == (Solved /\ E.inst.fmt # "lilim" /\ S_LocationsAsFile(E.inst, E.P)) =>
   \A id \in S_Range(E.unassigned) : LET n == S_Node(E.inst, id) IN
      ~(n.d <= E.inst.q /\ S_TimeOk(E.inst, E.P, <<id>>) /\ Len(E.routes) < E.inst.k)
\* the written text solution read back gives the same routes
InitRoundTrip == (Solved /\ E.reread.status # "skipped") => E.reread.status = "ok" /\ E.reread.routes = E.routes
J_Parsed == Judge("Parsed", Parsed)
J_FleetAsFile == Judge("FleetAsFile", FleetAsFile)
J_CustomersAsFile == Judge("CustomersAsFile", CustomersAsFile)
J_IdsAsFile == Judge("IdsAsFile", IdsAsFile)
J_DistancesEuclidean == Judge("DistancesEuclidean", DistancesEuclidean)
J_SolveReturns == Judge("SolveReturns", SolveReturns)
J_RoutesPartition == Judge("RoutesPartition", RoutesPartition)
J_RoutesFeasible == Judge("RoutesFeasible", RoutesFeasible)
J_ServedWhenPossible == Judge("ServedWhenPossible", ServedWhenPossible)
J_InitRoundTrip == Judge("InitRoundTrip", InitRoundTrip)
=============================================================================
