SPECIFICATION JSpec
CHECK_DEADLOCK FALSE
INVARIANT NoPanic
INVARIANT Deserializable
INVARIANT NoneMissed
INVARIANT NoneSpurious
INVARIANT AcceptedWhenClean
INVARIANT RejectionHasCode
INVARIANT Emit
