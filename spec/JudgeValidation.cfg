SPECIFICATION JSpec
CHECK_DEADLOCK FALSE
INVARIANT NoPanic
INVARIANT Deserializable
INVARIANT NoneMissed
INVARIANT NoneSpurious
INVARIANT NoUnexplainedCode
INVARIANT AcceptedWhenClean
INVARIANT RejectionHasCode
INVARIANT Emit
