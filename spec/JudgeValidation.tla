---------------------------- MODULE JudgeValidation ----------------------------
(* C10: outcome of reading each generated document (act) against the documented rules (Validation.tla). *)
EXTENDS Validation, Json, IOUtils
Recs == ndJsonDeserialize(IOEnv.RECS)
VARIABLE l
E == Recs[l]
Say(name) == PrintT("VERDICT-FAIL " \o name \o " " \o ToString(l) \o " " \o E.id)
JInit == l = 1
JNext == l < Len(Recs) /\ l' = l + 1
JSpec == JInit /\ [][JNext]_l
Reported == V_Range(E.act.codes)
\* "never a crash"
NoPanic == E.act.status # "panic" \/ Say("NoPanic")
\* a schema-conformant document is always deserializable
Deserializable == E.act.status # "undeserializable" \/ Say("Deserializable")
Decided == E.act.status \in {"ok", "err"}
\* every rule the document certainly breaks is reported
NoneMissed == Decided => \A c \in Codes : (Must(c, E.doc) => c \in Reported) \/ Say("Missed_" \o c)
\* every reported validation code names a rule the document can be said to break
NoneSpurious == Decided => \A c \in Codes : (c \in Reported => May(c, E.doc)) \/ Say("Spurious_" \o c)
\* a rejection is explained by validation rules only (E0xxx codes name no rule of the problem definition)
NoUnexplainedCode == Decided => \A c \in Reported : c \in Codes \/ Say("Unexplained_" \o c)
\* accepted exactly when no rule is broken: a document that breaks no rule under any reading is accepted, and a rejection carries a code
AcceptedWhenClean == (Decided /\ MaySet(E.doc) = {}) => (E.act.status = "ok" \/ Say("RejectedClean"))
RejectionHasCode == (E.act.status = "err") => (Reported # {} \/ Say("RejectionWithoutCode"))
\* vacuity bookkeeping for the driver: which rules this document witnesses
Emit == PrintT("MM " \o ToString(l) \o " " \o ToJson(SetToSeq(MustSet(E.doc))) \o " " \o ToJson(SetToSeq(MaySet(E.doc))))
=============================================================================
