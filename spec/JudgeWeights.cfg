SPECIFICATION JSpec
CHECK_DEADLOCK FALSE
INVARIANT J_NoPanic
INVARIANT J_WeightsOfInputDimension
INVARIANT J_WeightsFiniteWithTours
INVARIANT J_WeightsFiniteWithoutTours
