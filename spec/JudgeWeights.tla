------------------------------ MODULE JudgeWeights ------------------------------
(* C19, the vrp side of the map's input (vrp-core heuristic.rs on_init over metrics.rs / footprint.rs): the weight vector a solution *)
(* offers to the self-organising population has one fixed dimension and holds finite numbers only - for the empty solution, a       *)
(* constructed one and a single tour.                                                                                              *)
EXTENDS Naturals, Sequences, TLC, Json, IOUtils
Recs == ndJsonDeserialize(IOEnv.RECS)
Dim == 15            \* load (3), time (2), distance (4), depot (2), tour (1), unassigned, tours, cost
VARIABLE l
E == Recs[l]
Judge(name, ok) == ok \/ PrintT("VERDICT-FAIL " \o name \o " " \o ToString(l) \o " " \o E.id)
JInit == l = 1
JNext == l < Len(Recs) /\ l' = l + 1
JSpec == JInit /\ [][JNext]_l
NoPanic == E.status # "panic"
WeightsOfInputDimension == \A v \in 1..Len(E.variants) : E.variants[v].len = Dim
WeightsFiniteWithTours == \A v \in 1..Len(E.variants) : E.variants[v].tours >= 1 => \A i \in 1..Len(E.variants[v].finite) : E.variants[v].finite[i]
WeightsFiniteWithoutTours == \A v \in 1..Len(E.variants) : E.variants[v].tours = 0 => \A i \in 1..Len(E.variants[v].finite) : E.variants[v].finite[i]
J_NoPanic == Judge("NoPanic", NoPanic)
J_WeightsOfInputDimension == Judge("WeightsOfInputDimension", WeightsOfInputDimension)
J_WeightsFiniteWithTours == Judge("WeightsFiniteWithTours", WeightsFiniteWithTours)
J_WeightsFiniteWithoutTours == Judge("WeightsFiniteWithoutTours", WeightsFiniteWithoutTours)
=============================================================================
