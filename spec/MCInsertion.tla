---------------------------- MODULE MCInsertion ----------------------------
(* Construction / ruin game over one tour: insertions are guarded by the evaluator's decision (I_FastEval), removals are *)
(* free.  Decides at design level: (1) every reachable tour is feasible under brute-force simulation (C01: "every        *)
(* insertion is gated" implies feasibility, also after removals); (2) for single-task jobs the decision taken from the   *)
(* cached summaries is exactly the brute-force answer (C06 exactness).                                                   *)
EXTENDS InsertionWorlds
CONSTANTS WorldIx, MaxLen
W == Worlds[WorldIx]
VARIABLE tour
Singles == { j \in 1..Len(W.jobs) : W.jobs[j].kind # "pd" }
GuardedInsert(j, w, p) ==
  /\ Len(tour) < MaxLen /\ ~I_InTour(tour, j) /\ p \in 0..Len(tour)
  /\ LET x == [j |-> j, part |-> 0, w |-> w] IN I_FastEval(W, tour, x, p) /\ tour' = I_InsAt(tour, x, p)
RuinAt(i) == i \in 1..Len(tour) /\ tour' = SubSeq(tour, 1, i - 1) \o SubSeq(tour, i + 1, Len(tour))
Init == tour = <<>>
Next == \/ \E j \in Singles : \E w \in I_Windows(W, j, 0), p \in 0..MaxLen : GuardedInsert(j, w, p)
        \/ \E i \in 1..MaxLen : RuinAt(i)
Spec == Init /\ [][Next]_tour
GatedImpliesFeasible == I_Sim(W, tour)
Exactness == \A j \in Singles : ~I_InTour(tour, j) =>
               \A w \in I_Windows(W, j, 0), p \in 0..Len(tour) :
                  LET x == [j |-> j, part |-> 0, w |-> w] IN I_FastEval(W, tour, x, p) = I_Sim(W, I_InsAt(tour, x, p))
=============================================================================
