SPECIFICATION Spec
CONSTANTS
  WorldIx = 28
  MaxLen = 5
INVARIANT GatedImpliesFeasible
INVARIANT Exactness
CHECK_DEADLOCK FALSE
