SPECIFICATION Spec
CONSTANTS
  WorldIx = 8
  MaxLen = 4
INVARIANT GatedImpliesFeasible
INVARIANT Exactness
CHECK_DEADLOCK FALSE
