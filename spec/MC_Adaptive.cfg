SPECIFICATION ASpec
CONSTANTS
  Rewards = {0, 1, 2, 5}
  MaxN = 4
INVARIANTS ShapePositive RatePositive VarianceNonNegative MeanInHull ModelExact
PROPERTY RateNeverDecreases
CHECK_DEADLOCK FALSE
