SPECIFICATION Spec
CONSTANTS
  Closed = TRUE
  Depth = 5
INVARIANT TourWellFormed
INVARIANT RegistryWellFormed
VIEW View
CHECK_DEADLOCK FALSE
