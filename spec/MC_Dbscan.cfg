SPECIFICATION DbSpec
CONSTANTS
  DbN = 3
  DbAllOrders = TRUE
INVARIANTS DbContractAtEnd DbTypesMatchClusters DbNoiseIsNotCore DbSeedIsCore
PROPERTY DbTerminates
CHECK_DEADLOCK FALSE
