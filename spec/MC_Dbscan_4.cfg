SPECIFICATION DbSpec
CONSTANTS
  DbN = 4
  DbAllOrders = FALSE
INVARIANTS DbContractAtEnd DbTypesMatchClusters DbNoiseIsNotCore DbSeedIsCore
CHECK_DEADLOCK FALSE
