SPECIFICATION GSpec
CONSTANTS
  Offsets <- SweepOffsets
  Win = 3
INVARIANTS ShiftInjective NeverGrows KeepsFour
CHECK_DEADLOCK FALSE
