SPECIFICATION GSpec
CONSTANTS
  Offsets <- SweepOffsets
  Win = 4
INVARIANTS ShiftInjective NeverGrows KeepsFour
CHECK_DEADLOCK FALSE
