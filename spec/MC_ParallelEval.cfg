SPECIFICATION Spec
CONSTANTS
  MaxLen = 4
  RVals = {0, 1, 2}
  AVals = {0, 1, 2}
INVARIANTS SplitIndependent FoldIsMin
CHECK_DEADLOCK FALSE
