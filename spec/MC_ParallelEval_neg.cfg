SPECIFICATION Spec
CONSTANTS
  MaxLen = 3
  RVals = {0, 1, 2}
  AVals <- NegVals
INVARIANTS SplitIndependent
CHECK_DEADLOCK FALSE
