SPECIFICATION Spec
CONSTANTS
  Depth = 6
  Kinds = {"greedy", "elitism", "rosomaxa"}
  Fits <- FitsSmall
  Sim = FALSE
  MaxBatch = 2
VIEW View
INVARIANTS BestNoWorse Sorted SizeBound RankedOffered NoTwins NonEmptyOnceOffered
PROPERTY PhaseMonotone
CHECK_DEADLOCK FALSE
