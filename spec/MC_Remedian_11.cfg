SPECIFICATION RSpec
CONSTANTS
  Bases = {1, 2, 3, 4}
  Exps = {1, 2, 3}
  Vals = {1, 2, 3}
  MaxLen = 11
INVARIANTS CountIsAccepted WeightsAddUp BuffersBelowBase FullExactlyAtCapacity RefusesOnlyWhenFull MedianObserved RankAtPowers ExactWhenOneFullBuffer
CHECK_DEADLOCK FALSE
