SPECIFICATION Spec
CONSTANTS
  Jobs = {j1, j2, j3}
  Markers = {m1}
  Vehicles = {v1, v2}
  Locked = {j1}
  Grouped = {j2, j3}
  Compat = {j2}
  MarkerVehicle <- MC_MarkerVehicle
  MaxRemovals = 2
INVARIANT Conservation
INVARIANT NeverLost
INVARIANT NoDupInRoute
INVARIANT RegistrySync
INVARIANT LockedPinned
INVARIANT MarkersOnOwnVehicle
INVARIANT CacheFreshHandOver
INVARIANT CacheFreshAfterInsertion
INVARIANT NoEmptyRoutesIdle
CHECK_DEADLOCK FALSE
