SPECIFICATION Spec
CONSTANTS
  Jobs = {j1, j2, j3, j4}
  Markers = {m1}
  Vehicles = {v1, v2, v3}
  Locked = {j1}
  Grouped = {j2, j3}
  Compat = {j2}
  MarkerVehicle <- MC_MarkerVehicle
  MaxRemovals = 3
INVARIANT Conservation
INVARIANT NeverLost
INVARIANT NoDupInRoute
INVARIANT RegistrySync
INVARIANT LockedPinned
INVARIANT MarkersOnOwnVehicle
INVARIANT CacheFreshHandOver
INVARIANT CacheFreshAfterInsertion
INVARIANT NoEmptyRoutesIdle
CHECK_DEADLOCK FALSE
