SPECIFICATION Spec
CONSTANTS
  MaxGen = 3
  InitMax = 3
  MaxPolls = 3
  GenSlack = 0
INVARIANT ReturnsSolution
INVARIANT GenerationsBounded
PROPERTY NoGenerationAfterStop
PROPERTY Terminates
CHECK_DEADLOCK FALSE
