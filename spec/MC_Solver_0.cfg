SPECIFICATION Spec
CONSTANTS
  MaxGen = 0
  InitMax = 3
  MaxPolls = 3
  GenSlack = 1
INVARIANT ReturnsSolution
INVARIANT GenerationsBounded
PROPERTY NoGenerationAfterStop
PROPERTY Terminates
CHECK_DEADLOCK FALSE
