------------------------------- MODULE MathUtil -------------------------------
(***************************************************************************)
(* C18, numeric helpers behind the adaptive selector and the termination   *)
(* criteria (rosomaxa/src/algorithms/math/*.rs, utils/random.rs,           *)
(* utils/iterators.rs, utils/noise.rs) - pure definitions, integer exact.  *)
(*                                                                         *)
(* Remedian (algorithms/math/remedian.rs): `exp` buffers of `base` slots;  *)
(* a full buffer is replaced by its median, which goes one level up; an    *)
(* entry of level i stands for base^(i-1) observations; when the last      *)
(* buffer fills up the estimator is full and refuses observations.         *)
(* state: [base, exp, bufs, count, full]                                   *)
(***************************************************************************)
EXTENDS Naturals, Integers, Sequences, SequencesExt, FiniteSets, FiniteSetsExt, TLC

M_Pow(b, k) == FoldLeft(LAMBDA a, i : a * b, 1, [i \in 1..k |-> i])
M_RInit(b, e) == [base |-> b, exp |-> e, bufs |-> [i \in 1..e |-> <<>>], count |-> 0, full |-> FALSE]
M_Sorted(s) == SortSeq(s, LAMBDA a, b : a < b)
RECURSIVE M_Cascade(_, _)
M_Cascade(st, i) ==
  IF i > st.exp \/ Len(st.bufs[i]) # st.base THEN st
  ELSE LET sorted == M_Sorted(st.bufs[i]) IN
       IF i # st.exp
       THEN M_Cascade([st EXCEPT !.bufs = [j \in 1..st.exp |-> IF j = i THEN <<>> ELSE IF j = i + 1 THEN Append(st.bufs[j], sorted[(st.base \div 2) + 1]) ELSE st.bufs[j]]], i + 1)
       ELSE [st EXCEPT !.bufs = [j \in 1..st.exp |-> IF j = i THEN sorted ELSE st.bufs[j]], !.full = TRUE]
\* add_observation: refused when full
M_RAdd(st, v) == IF st.full THEN st
                 ELSE M_Cascade([st EXCEPT !.count = st.count + 1, !.bufs = [j \in 1..st.exp |-> IF j = 1 THEN Append(st.bufs[1], v) ELSE st.bufs[j]]], 1)
\* approx_median: <<>> = nothing observed; weighted median of the buffer entries (the first value whose cumulated weight reaches half of the count)
M_RPositions(st) == { p \in (1..st.exp) \X (1..st.base) : p[2] <= Len(st.bufs[p[1]]) }
M_RCum(st, v) == FoldSet(LAMBDA p, acc : acc + (IF st.bufs[p[1]][p[2]] <= v THEN M_Pow(st.base, p[1] - 1) ELSE 0), 0, M_RPositions(st))
M_RMedian(st) ==
  IF st.full THEN << st.bufs[st.exp][(st.base \div 2) + 1] >>
  ELSE LET vals == { st.bufs[p[1]][p[2]] : p \in M_RPositions(st) }
           ok == { v \in vals : M_RCum(st, v) >= st.count \div 2 } IN
       IF ok = {} THEN <<>> ELSE << Min(ok) >>
M_RWeightTotal(st) == FoldSet(LAMBDA p, acc : acc + M_Pow(st.base, p[1] - 1), 0, M_RPositions(st))
M_RCapacity(b, e) == M_Pow(b, e)
\* the state after a whole stream
M_RRun(b, e, xs) == FoldLeft(LAMBDA st, v : M_RAdd(st, v), M_RInit(b, e), xs)
\* rank guarantee of a median of medians over base^j observations: at least (base / 2 + 1)^j values are not above it and
\* at least (base - base / 2)^j values are not below it
M_CountLe(xs, m) == Cardinality({ i \in 1..Len(xs) : xs[i] <= m })
M_CountGe(xs, m) == Cardinality({ i \in 1..Len(xs) : xs[i] >= m })
M_RankOk(b, j, xs, m) == M_CountLe(xs, m) >= M_Pow((b \div 2) + 1, j) /\ M_CountGe(xs, m) >= M_Pow(b - (b \div 2), j)

(******************************* statistics ********************************)
M_Sum(s) == FoldLeft(LAMBDA a, b : a + b, 0, s)
M_SumSq(s) == FoldLeft(LAMBDA a, b : a + b * b, 0, s)
\* n^2 * variance (population variance, no Bessel correction)
M_VarNum(s) == Len(s) * M_SumSq(s) - M_Sum(s) * M_Sum(s)
M_Abs(x) == IF x < 0 THEN 0 - x ELSE x
\* observed value o (in units of 1 / scale) equals num / den up to one unit
M_Near(o, scale, num, den) == M_Abs(o * den - scale * num) <= den
\* observed value o (in 1 / scale) equals sqrt(num / den) up to one unit:  (o - 1)^2 <= scale^2 num / den <= (o + 1)^2
M_NearSqrt(o, scale, num, den) == (o <= 1 \/ (o - 1) * (o - 1) * den <= scale * scale * num) /\ scale * scale * num <= (o + 1) * (o + 1) * den

(**************************** relative distance ****************************)
\* D^2 = sum of ((a - b) / max(|a|, |b|))^2 over the components, 0 where both are 0; magnitudes from {0, 1, 2, 4}: 16 D^2 is an integer
M_Max2(a, b) == IF a > b THEN a ELSE b
M_RelSq16(a, b) == M_Sum([i \in 1..Len(a) |-> LET m == M_Max2(M_Abs(a[i]), M_Abs(b[i])) IN IF m = 0 THEN 0 ELSE ((a[i] - b[i]) * (a[i] - b[i]) * 16) \div (m * m)])
=============================================================================
