SPECIFICATION Spec
CHECK_DEADLOCK FALSE
INVARIANT J_PartitionJobs
INVARIANT J_NoForeignIds
INVARIANT J_TourNamesVehicleShift
INVARIANT J_TourServesJob
INVARIANT J_TourTerminals
INVARIANT J_TourUniqueVehicleShift
INVARIANT J_ConditionalDistinct
INVARIANT J_ScheduleArrivals
INVARIANT J_ScheduleDepartures
INVARIANT J_StopLocations
INVARIANT J_PlacesAndWindows
INVARIANT J_PlaceTags
INVARIANT J_PlaceTagsSinglePlaceAtLocation
INVARIANT J_Reach
INVARIANT J_ShiftStart
INVARIANT J_DepartureNotBeforeEarliest
INVARIANT J_DepartureNotAfterLatest
INVARIANT J_ShiftEnd
INVARIANT J_Capacity
INVARIANT J_ReportedLoad
INVARIANT J_Skills
INVARIANT J_LimitDistance
INVARIANT J_RechargeDistance
INVARIANT J_LimitDuration
INVARIANT J_LimitTourSize
INVARIANT J_Groups
INVARIANT J_Compat
INVARIANT J_OrderHard
INVARIANT J_RelationVehicle
INVARIANT J_RelationOrder
INVARIANT J_StopDistances
INVARIANT J_TourStat
INVARIANT J_TourCost
INVARIANT J_OverallStat
