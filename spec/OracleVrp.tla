----------------------------- MODULE OracleVrp -----------------------------
(***************************************************************************)
(* O binding (DESIGN 2.2): one recorded (problem, solution) per state; the *)
(* definitions of VrpModel are judged on each.  A failed judgement prints  *)
(* a VERDICT-FAIL line and the walk goes on, so that one pass reports      *)
(* every failing (invariant, record) pair; the driver owns the verdict.    *)
(***************************************************************************)
EXTENDS VrpModel, Json, IOUtils
Recs == ndJsonDeserialize(IOEnv.RECS)
VARIABLE l
R == Recs[l]
\* one string per line: TLC wraps long tuples over several lines, strings never
Judge(name, ok) == ok \/ PrintT("VERDICT-FAIL " \o name \o " " \o ToString(l) \o " " \o R.id)
Init == l = 1
Next == l < Len(Recs) /\ l' = l + 1
Spec == Init /\ [][Next]_l

J_PartitionJobs == Judge("PartitionJobs", PartitionJobs(R))
J_NoForeignIds == Judge("NoForeignIds", NoForeignIds(R))
J_TourNamesVehicleShift == Judge("TourNamesVehicleShift", TourNamesVehicleShift(R))
J_TourServesJob == Judge("TourServesJob", TourServesJob(R))
J_TourTerminals == Judge("TourTerminals", TourTerminals(R))
J_TourUniqueVehicleShift == Judge("TourUniqueVehicleShift", TourUniqueVehicleShift(R))
J_ConditionalDistinct == Judge("ConditionalDistinct", ConditionalDistinct(R))
J_ScheduleArrivals == Judge("ScheduleArrivals", ScheduleArrivals(R))
J_ScheduleDepartures == Judge("ScheduleDepartures", ScheduleDepartures(R))
J_StopLocations == Judge("StopLocations", StopLocations(R))
J_PlacesAndWindows == Judge("PlacesAndWindows", PlacesAndWindows(R))
J_PlaceTags == Judge("PlaceTags", PlaceTags(R))
J_PlaceTagsSinglePlaceAtLocation == Judge("PlaceTagsSinglePlaceAtLocation", PlaceTagsSinglePlaceAtLocation(R))
J_Reach == Judge("Reach", Reach(R))
J_ShiftStart == Judge("ShiftStart", ShiftStart(R))
J_DepartureNotBeforeEarliest == Judge("DepartureNotBeforeEarliest", DepartureNotBeforeEarliest(R))
J_DepartureNotAfterLatest == Judge("DepartureNotAfterLatest", DepartureNotAfterLatest(R))
J_ShiftEnd == Judge("ShiftEnd", ShiftEnd(R))
J_Capacity == Judge("Capacity", Capacity(R))
J_ReportedLoad == Judge("ReportedLoad", ReportedLoad(R))
J_Skills == Judge("Skills", Skills(R))
J_LimitDistance == Judge("LimitDistance", LimitDistance(R))
J_LimitDuration == Judge("LimitDuration", LimitDuration(R))
J_LimitTourSize == Judge("LimitTourSize", LimitTourSize(R))
J_RechargeDistance == Judge("RechargeDistance", RechargeDistance(R))
J_Groups == Judge("Groups", Groups(R))
J_Compat == Judge("Compat", Compat(R))
J_OrderHard == Judge("OrderHard", OrderHard(R))
J_RelationVehicle == Judge("RelationVehicle", RelationVehicle(R))
J_RelationOrder == Judge("RelationOrder", RelationOrder(R))
J_StopDistances == Judge("StopDistances", StopDistances(R))
J_TourStat == Judge("TourStat", TourStat(R))
J_TourCost == Judge("TourCost", TourCost(R))
J_OverallStat == Judge("OverallStat", OverallStat(R))
\* vacuity / non-triviality counters printed once per record
J_Info == PrintT(<<"INFO", l, Len(R.tours), Len(R.unassigned)>>)
=============================================================================
