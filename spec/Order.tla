-------------------------------- MODULE Order --------------------------------
(***************************************************************************)
(* C09: order and algebra of insertion costs, order of solutions under a   *)
(* goal.  A number is [v, nz]: an integer value and, for v = 0, the sign   *)
(* of zero (nz = TRUE is -0.0), or one of the symbols "ninf" / "pinf".     *)
(* O_Rank is the IEEE total order (f64::total_cmp): -inf < negatives <     *)
(* -0 < +0 < positives < +inf.                                             *)
(***************************************************************************)
EXTENDS Naturals, Integers, Sequences, SequencesExt, FiniteSets, TLC
O_Num(v, nz) == [v |-> v, nz |-> nz, k |-> "fin"]
O_PZ == O_Num(0, FALSE)
O_NZ == O_Num(0, TRUE)
O_PInf == [v |-> 0, nz |-> FALSE, k |-> "pinf"]
O_NInf == [v |-> 0, nz |-> FALSE, k |-> "ninf"]
\* the largest finite number (the code's marker "no cost known yet", InsertionCost::max_value): below +inf, above everything else
O_PMax == [v |-> 0, nz |-> FALSE, k |-> "pmax"]
O_Rank(x) == IF x.k = "ninf" THEN 0 - 1000 ELSE IF x.k = "pinf" THEN 1000 ELSE IF x.k = "pmax" THEN 999
             ELSE IF x.v = 0 THEN (IF x.nz THEN 0 - 1 ELSE 0) ELSE 2 * x.v
O_Cmp(a, b) == IF O_Rank(a) < O_Rank(b) THEN 0 - 1 ELSE IF O_Rank(a) > O_Rank(b) THEN 1 ELSE 0
O_IsZero(x) == x.k = "fin" /\ x.v = 0
\* IEEE addition / negation on finite numbers (round-to-nearest): x + (-x) = +0, (-0) + (-0) = -0
O_Add(a, b) == LET v == a.v + b.v IN O_Num(v, v = 0 /\ O_IsZero(a) /\ O_IsZero(b) /\ a.nz /\ b.nz)
O_Neg(a) == IF a.v = 0 THEN O_Num(0, ~a.nz) ELSE O_Num(0 - a.v, FALSE)
O_Sub(a, b) == O_Add(a, O_Neg(b))
O_Max(a, b) == IF a > b THEN a ELSE b

(************************* insertion cost vectors *************************)
O_At(x, i) == IF i <= Len(x) THEN x[i] ELSE O_PZ            \* "a missing trailing component counts as zero"
RECURSIVE O_LexFrom(_, _, _, _)
O_LexFrom(x, y, i, n) == IF i > n THEN 0 ELSE LET c == O_Cmp(O_At(x, i), O_At(y, i)) IN IF c # 0 THEN c ELSE O_LexFrom(x, y, i + 1, n)
O_CmpCost(x, y) == O_LexFrom(x, y, 1, O_Max(Len(x), Len(y)))
O_AddCost(x, y) == [i \in 1..O_Max(Len(x), Len(y)) |-> O_Add(O_At(x, i), O_At(y, i))]
O_SubCost(x, y) == [i \in 1..O_Max(Len(x), Len(y)) |-> O_Sub(O_At(x, i), O_At(y, i))]
\* equality "up to the sign of zero" and up to trailing zeros
O_SameValue(x, y) == \A i \in 1..O_Max(Len(x), Len(y)) : O_At(x, i).v = O_At(y, i).v /\ O_At(x, i).k = O_At(y, i).k

(********************************* goals **********************************)
\* a goal shape is a sequence of layer sizes (1 = single objective layer, >1 = multi-objective layer);
\* a solution is its fitness vector, one number per objective in layer order
O_Offsets(shape) == [l \in 1..Len(shape) |-> FoldLeft(LAMBDA a, b : a + b, 0, SubSeq(shape, 1, l - 1))]
\* single layer: "+0 and -0 equal", otherwise the IEEE total order
O_CmpSingle(a, b) == IF O_IsZero(a) /\ O_IsZero(b) THEN 0 ELSE O_Cmp(a, b)
\* multi layer: dominance over the per-objective IEEE order
O_CmpMulti(fa, fb) == LET less == { i \in 1..Len(fa) : O_Cmp(fa[i], fb[i]) < 0 } greater == { i \in 1..Len(fa) : O_Cmp(fa[i], fb[i]) > 0 } IN
                      IF less # {} /\ greater = {} THEN 0 - 1 ELSE IF greater # {} /\ less = {} THEN 1 ELSE 0
O_CmpLayer(shape, l, a, b) == LET o == O_Offsets(shape)[l] IN
   IF shape[l] = 1 THEN O_CmpSingle(a[o + 1], b[o + 1]) ELSE O_CmpMulti(SubSeq(a, o + 1, o + shape[l]), SubSeq(b, o + 1, o + shape[l]))
RECURSIVE O_GoalFrom(_, _, _, _)
O_GoalFrom(shape, l, a, b) == IF l > Len(shape) THEN 0 ELSE LET c == O_CmpLayer(shape, l, a, b) IN IF c # 0 THEN c ELSE O_GoalFrom(shape, l + 1, a, b)
O_CmpGoal(shape, a, b) == O_GoalFrom(shape, 1, a, b)
\* lexicographic comparison of the reported fitness vector with +0 and -0 equal
RECURSIVE O_LexFit(_, _, _)
O_LexFit(a, b, i) == IF i > Len(a) THEN 0 ELSE LET c == O_CmpSingle(a[i], b[i]) IN IF c # 0 THEN c ELSE O_LexFit(a, b, i + 1)
=============================================================================
