---------------------------- MODULE ParallelEval ----------------------------
(***************************************************************************)
(* C15: PositionInsertionEvaluator::evaluate_all (selectors.rs) is a       *)
(* fold_reduce over the cartesian product routes x jobs: rayon cuts the    *)
(* candidate sequence into consecutive chunks (how, depends on the thread  *)
(* count and on work stealing), folds every chunk from the identity        *)
(* "failure" and reduces the chunk results with the result selector.       *)
(* Inside a fold the best result so far is handed to the next evaluation,  *)
(* which uses it to PRUNE: a candidate whose route-level estimate is       *)
(* already worse than the best known cost is not evaluated further         *)
(* (evaluators.rs eval_job_insertion_in_route).                            *)
(*                                                                         *)
(* Design claim checked here for every candidate sequence and every way    *)
(* of cutting it: the reduced result equals the sequential minimum -       *)
(* provided the activity-level part of a cost is never negative (the       *)
(* pruning is then sound).  With a negative activity-level part the claim  *)
(* fails (MC_ParallelEval_neg.cfg is expected to be violated).             *)
(*                                                                         *)
(* A candidate: [r: route-level estimate, a: activity-level part, ok]      *)
(* (ok = some position is feasible); its cost is r + a.  None = failure.   *)
(***************************************************************************)
EXTENDS Naturals, Integers, Sequences, SequencesExt, FiniteSets, FiniteSetsExt, TLC
CONSTANTS MaxLen, RVals, AVals
VARIABLES cs, cuts
None == 0 - 1000
NegVals == {0 - 2, 0, 1}     \* for MC_ParallelEval_neg.cfg (a cfg file cannot write negative numbers)
PE_Best(x, y) == IF x = None THEN y ELSE IF y = None THEN x ELSE IF y < x THEN y ELSE x
\* one evaluation with the best known result as alternative
PE_Step(acc, c) == IF acc # None /\ acc < c.r THEN acc                   \* pruned on the route-level estimate
                   ELSE IF c.ok THEN PE_Best(acc, c.r + c.a) ELSE acc
PE_Fold(chunk) == FoldLeft(PE_Step, None, chunk)
\* cuts: a set of positions 1..Len-1 after which the sequence is cut
PE_Chunks(s, K) == LET pts == SetToSortSeq(K \cup {0, Len(s)}, <) IN [i \in 1..(Len(pts) - 1) |-> SubSeq(s, pts[i] + 1, pts[i + 1])]
PE_Reduce(s, K) == FoldLeft(PE_Best, None, [i \in 1..Len(PE_Chunks(s, K)) |-> PE_Fold(PE_Chunks(s, K)[i])])
PE_SeqMin(s) == FoldLeft(PE_Best, None, [i \in 1..Len(s) |-> IF s[i].ok THEN s[i].r + s[i].a ELSE None])
Cand == [r : RVals, a : AVals, ok : BOOLEAN]
Init == /\ cs \in UNION { [1..n -> Cand] : n \in 0..MaxLen }
        /\ cuts \in SUBSET (1..(MaxLen - 1))
Next == UNCHANGED <<cs, cuts>>
Spec == Init /\ [][Next]_<<cs, cuts>>
CutsOk == cuts \subseteq 1..(Len(cs) - 1)
\* the result does not depend on how the work is split, and it is the minimum
SplitIndependent == CutsOk => PE_Reduce(cs, cuts) = PE_SeqMin(cs)
\* pruning is sound inside one fold as well
FoldIsMin == PE_Fold(cs) = PE_SeqMin(cs)
=============================================================================
