----------------------------- MODULE Population -----------------------------
(***************************************************************************)
(* C08: the three populations of rosomaxa (population/greedy.rs,           *)
(* elitism.rs, rosomaxa.rs) as one state machine over individuals that     *)
(* are offered one by one or in batches.                                   *)
(*                                                                         *)
(*  fit     fit[id] = fitness of the id-th offered individual (a pair,     *)
(*          compared lexicographically)                                    *)
(*  ranked  ids, best first: Greedy - at most one; Elitism - sort (stable) *)
(*          + dedup (keeps the earlier twin) + truncate; Rosomaxa - an     *)
(*          elitism fed only with individuals not worse than its best      *)
(*  phase   Rosomaxa: initial -> exploration -> exploitation, driven by    *)
(*          on_generation(termination estimate)                            *)
(*  known   Rosomaxa, initial phase: individuals collected for the network *)
(*  hist    operations with the model's expectation (hidden by the VIEW)   *)
(*                                                                         *)
(* The configuration (kind, sizes, dedup rule) is chosen in Init.          *)
(***************************************************************************)
EXTENDS Naturals, Integers, Sequences, SequencesExt, FiniteSets, FiniteSetsExt, TLC, Json
CONSTANTS Depth,        \* number of operations of a history
          Kinds,        \* subset of {"greedy", "elitism", "rosomaxa"}
          Fits,         \* fitness alphabet: pairs of naturals
          MaxBatch,     \* largest add_all batch
          Sim           \* TRUE: one random choice per operation kind (simulation), FALSE: all choices (model checking)
VARIABLES cfg, fit, ranked, phase, known, hist
vars == <<cfg, fit, ranked, phase, known, hist>>

\* alphabets for the configurations (a cfg file cannot write tuples)
FitsSmall == { <<1, 1>>, <<1, 2>>, <<2, 1>> }
FitsGen == { <<a, b>> : a \in 1..3, b \in 1..2 }
\* lexicographic total order: -1 less (better), 0 equal, 1 greater (worse)
P_Cmp(f, g) == IF f[1] < g[1] THEN 0 - 1 ELSE IF f[1] > g[1] THEN 1 ELSE IF f[2] < g[2] THEN 0 - 1 ELSE IF f[2] > g[2] THEN 1 ELSE 0
\* dedup rules (Elitism::new_with_dedup): "equal" - same fitness; "near" - same first component
P_Same(rule, f, g) == IF rule = "equal" THEN f = g ELSE f[1] = g[1]
P_Min(a, b) == IF a < b THEN a ELSE b
Pick(S) == IF Sim THEN {RandomElement(S)} ELSE S

(************************ elitism: sort, dedup, truncate ********************)
\* stable sort of ids by fitness: ties keep their position in the input sequence
P_StableSort(F, ids) ==
  LET idx == SortSeq([i \in 1..Len(ids) |-> i], LAMBDA i, j : P_Cmp(F[ids[i]], F[ids[j]]) < 0 \/ (P_Cmp(F[ids[i]], F[ids[j]]) = 0 /\ i < j))
  IN [k \in 1..Len(ids) |-> ids[idx[k]]]
\* Vec::dedup_by: an element is dropped when it is "the same" as the last retained one
P_Dedup(F, rule, ids) ==
  FoldLeft(LAMBDA acc, x : IF acc # <<>> /\ P_Same(rule, F[x], F[acc[Len(acc)]]) THEN acc ELSE Append(acc, x), <<>>, ids)
P_Elite(F, rule, maxSize, old, new) ==
  LET d == P_Dedup(F, rule, P_StableSort(F, old \o new)) IN SubSeq(d, 1, P_Min(Len(d), maxSize))
\* Elitism::is_improved: there was no best before, or the fitness of the best changed
P_Improved(F, old, new) == new # <<>> /\ (old = <<>> \/ F[old[1]] # F[new[1]])

(********************************* actions *********************************)
Init == /\ cfg \in { [kind |-> k, maxSize |-> m, dedup |-> d, initialSize |-> 4, selSize |-> 3] :
                     k \in Kinds, m \in 1..3, d \in {"equal", "near"} }
        /\ (cfg.kind = "greedy" => cfg.maxSize = 1 /\ cfg.dedup = "equal")
        /\ (cfg.kind = "rosomaxa" => cfg.dedup = "equal")
        /\ fit = <<>> /\ ranked = <<>> /\ phase = (IF cfg.kind = "rosomaxa" THEN "initial" ELSE "exploitation") /\ known = 0 /\ hist = <<>>

\* result of offering the batch `fs` (fitness values, in order): new ranking and the "improved" flag
Offer(fs) ==
  LET F == fit \o fs
      new == [i \in 1..Len(fs) |-> Len(fit) + i] IN
  CASE cfg.kind = "greedy" ->
         \* every individual of the batch is compared with the best so far
         LET best == FoldLeft(LAMBDA b, x : IF b = 0 \/ P_Cmp(F[b], F[x]) = 1 THEN x ELSE b, IF ranked = <<>> THEN 0 ELSE ranked[1], new) IN
         [ranked |-> IF best = 0 THEN <<>> ELSE <<best>>, improved |-> best # (IF ranked = <<>> THEN 0 ELSE ranked[1])]
    [] cfg.kind = "elitism" ->
         LET r == P_Elite(F, cfg.dedup, cfg.maxSize, ranked, new) IN
         [ranked |-> IF fs = <<>> THEN ranked ELSE r, improved |-> fs # <<>> /\ P_Improved(F, ranked, r)]
    [] OTHER ->
         \* rosomaxa: only individuals not worse than the best known reach the elite
         LET pass == SelectSeq(new, LAMBDA x : ranked = <<>> \/ P_Cmp(F[x], F[ranked[1]]) # 1)
             r == P_Elite(F, "equal", cfg.maxSize, ranked, pass) IN
         [ranked |-> IF pass = <<>> THEN ranked ELSE r, improved |-> pass # <<>> /\ P_Improved(F, ranked, r)]
Log(op, exp) == hist' = Append(hist, [op |-> op, exp |-> exp])
Expect(r, imp, ph) == [ranked |-> r, improved |-> imp, phase |-> ph, size |-> Len(r)]
Add == \E f \in Pick(Fits) : LET o == Offer(<<f>>) IN
         /\ fit' = Append(fit, f) /\ ranked' = o.ranked
         /\ known' = IF phase = "initial" THEN known + 1 ELSE known
         /\ UNCHANGED <<cfg, phase>>
         /\ Log([name |-> "add", fs |-> <<f>>, te |-> 0, speed |-> ""], Expect(o.ranked, o.improved, phase))
AddAll == \E fs \in Pick(UNION { [1..n -> Fits] : n \in 0..MaxBatch }) : LET o == Offer(fs) IN
         /\ fit' = fit \o fs /\ ranked' = o.ranked
         /\ known' = IF phase = "initial" THEN known + Len(fs) ELSE known
         /\ UNCHANGED <<cfg, phase>>
         /\ Log([name |-> "add_all", fs |-> fs, te |-> 0, speed |-> ""], Expect(o.ranked, o.improved, phase))
\* on_generation with a termination estimate in percent; the exploration ratio is 90 %
\* the tick also carries the refinement speed the telemetry has measured (unknown, slow with ratio 1/10 or 1/4, moderate): populations
\* may scale their selection with it, the properties do not depend on it
Speeds == {"unknown", "slow10", "slow25", "moderate"}
Generation == \E te \in Pick({10, 10, 10, 95}), sp \in Pick(Speeds) :
         LET ph == CASE cfg.kind # "rosomaxa" -> phase
                     [] phase = "initial" -> IF te > 90 THEN "exploitation" ELSE IF known >= cfg.initialSize THEN "exploration" ELSE "initial"
                     [] phase = "exploration" -> IF te < 90 THEN "exploration" ELSE "exploitation"
                     [] OTHER -> "exploitation" IN
         /\ phase' = ph /\ known' = IF ph = "initial" THEN known ELSE 0
         /\ UNCHANGED <<cfg, fit, ranked>>
         /\ Log([name |-> "on_generation", fs |-> <<>>, te |-> te, speed |-> sp], Expect(ranked, FALSE, ph))
Select == /\ UNCHANGED <<cfg, fit, ranked, phase, known>>
          /\ Log([name |-> "select", fs |-> <<>>, te |-> 0, speed |-> ""], Expect(ranked, FALSE, phase))
Next == Len(hist) < Depth /\ (Add \/ AddAll \/ Generation \/ Select)
\* the same actions on a schedule that walks a rosomaxa through its three phases early (initial -> exploration after `initialSize`
\* individuals and a tick far from the end, -> exploitation at a tick close to the end) and keeps offering afterwards: random
\* histories of this length rarely spend operations in exploitation that was reached through exploration
GenerationAt(te) == \E sp \in Pick(Speeds) :
         LET ph == CASE cfg.kind # "rosomaxa" -> phase
                     [] phase = "initial" -> IF te > 90 THEN "exploitation" ELSE IF known >= cfg.initialSize THEN "exploration" ELSE "initial"
                     [] phase = "exploration" -> IF te < 90 THEN "exploration" ELSE "exploitation"
                     [] OTHER -> "exploitation" IN
         /\ phase' = ph /\ known' = IF ph = "initial" THEN known ELSE 0
         /\ UNCHANGED <<cfg, fit, ranked>>
         /\ Log([name |-> "on_generation", fs |-> <<>>, te |-> te, speed |-> sp], Expect(ranked, FALSE, ph))
NextWalk == Len(hist) < Depth /\
            CASE Len(hist) < 4 -> Add
              [] Len(hist) = 4 -> GenerationAt(10)
              [] Len(hist) = 5 -> Add \/ AddAll
              [] Len(hist) = 6 -> GenerationAt(95)
              [] OTHER -> Add \/ AddAll \/ Select
SpecWalk == Init /\ [][NextWalk]_vars
Spec == Init /\ [][Next]_vars

(******************************** properties *******************************)
Offered == 1..Len(fit)
\* the first ranked individual is no worse than every individual ever offered
BestNoWorse == ranked # <<>> => \A id \in Offered : P_Cmp(fit[ranked[1]], fit[id]) # 1
Sorted == \A i \in 1..(Len(ranked) - 1) : P_Cmp(fit[ranked[i]], fit[ranked[i + 1]]) # 1
SizeBound == Len(ranked) <= cfg.maxSize
RankedOffered == \A i \in 1..Len(ranked) : ranked[i] \in Offered
NoTwins == \A i, j \in 1..Len(ranked) : i # j => ranked[i] # ranked[j]
NonEmptyOnceOffered == fit # <<>> => ranked # <<>>
PhaseOrder(p) == CASE p = "initial" -> 1 [] p = "exploration" -> 2 [] OTHER -> 3
PhaseMonotone == [][PhaseOrder(phase') >= PhaseOrder(phase)]_vars
\* history generation: complete histories are printed once (simulation mode); BFS mode ignores the history
Emit == Len(hist) < Depth \/ PrintT("HISTORY " \o ToJson([cfg |-> cfg, steps |-> hist]))
View == <<cfg, fit, ranked, phase, known, Len(hist)>>
=============================================================================
