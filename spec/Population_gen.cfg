SPECIFICATION Spec
CONSTANTS
  Depth = 14
  Kinds = {"greedy", "elitism", "rosomaxa"}
  Fits <- FitsGen
  Sim = TRUE
  MaxBatch = 3
INVARIANTS BestNoWorse Sorted SizeBound RankedOffered NoTwins NonEmptyOnceOffered Emit
CHECK_DEADLOCK FALSE
