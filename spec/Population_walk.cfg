SPECIFICATION SpecWalk
CONSTANTS
  Depth = 14
  Kinds = {"rosomaxa"}
  Fits <- FitsGen
  Sim = TRUE
  MaxBatch = 3
INVARIANTS BestNoWorse Sorted SizeBound RankedOffered NoTwins NonEmptyOnceOffered Emit
CHECK_DEADLOCK FALSE
