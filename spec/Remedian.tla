------------------------------- MODULE Remedian -------------------------------
(***************************************************************************)
(* C18: the median estimator of operator running times                     *)
(* (rosomaxa/src/algorithms/math/remedian.rs) as a state machine over the  *)
(* definitions of MathUtil.tla; checked for every stream over a small      *)
(* alphabet, every base and number of buffers.                             *)
(***************************************************************************)
EXTENDS MathUtil
CONSTANTS Bases, Exps, Vals, MaxLen
VARIABLES st, seen, refused
rvars == <<st, seen, refused>>
RInit == /\ st \in { M_RInit(b, e) : b \in Bases, e \in Exps }
         /\ seen = <<>> /\ refused = 0
\* one call of add_observation; `seen` holds the observations that were accepted
RAdd(v) == /\ Len(seen) + refused < MaxLen
           /\ st' = M_RAdd(st, v)
           /\ seen' = (IF st.full THEN seen ELSE Append(seen, v))
           /\ refused' = (IF st.full THEN refused + 1 ELSE refused)
RNext == \E v \in Vals : RAdd(v)
RSpec == RInit /\ [][RNext]_rvars
\* bookkeeping
CountIsAccepted == st.count = Len(seen)
WeightsAddUp == ~st.full => M_RWeightTotal(st) = st.count
BuffersBelowBase == ~st.full => \A i \in 1..st.exp : Len(st.bufs[i]) < st.base
FullExactlyAtCapacity == st.full <=> st.count = M_RCapacity(st.base, st.exp)
RefusesOnlyWhenFull == refused > 0 => st.full
\* the estimate is an observed value; it is missing only before the first observation
MedianObserved == LET m == M_RMedian(st) IN IF seen = <<>> THEN m = <<>> ELSE m # <<>> /\ \E i \in 1..Len(seen) : seen[i] = m[1]
\* at base^j observations the estimate is a median of medians with the rank guarantee of the remedian
RankAtPowers == \A j \in 0..st.exp : st.count = M_Pow(st.base, j) /\ seen # <<>> => M_RankOk(st.base, j, seen, M_RMedian(st)[1])
\* with at most `base` observations (one buffer) and an odd base that is full, the estimate is the exact median
ExactWhenOneFullBuffer == st.count = st.base /\ st.base % 2 = 1 => M_RMedian(st)[1] = M_Sorted(seen)[(st.base \div 2) + 1]
=============================================================================
