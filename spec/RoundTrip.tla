------------------------------ MODULE RoundTrip ------------------------------
(***************************************************************************)
(* C11.  Three round trips.                                                *)
(*                                                                         *)
(* 1. Initial solution.  A solution S the solver wrote, read back as the   *)
(*    initial solution of the same problem (and written again as S2),      *)
(*    keeps per vehicle shift the same customer-job activities in the same *)
(*    order, each at the same place (location and tag identify the place   *)
(*    of a task), and the same set of unassigned customer jobs.  Breaks    *)
(*    may be dropped again, reloads / departure / arrival are not customer *)
(*    activities, times are recomputed.                                    *)
(*    A tour: [vehicle, shift, acts: Seq([job, type, loc, tag])] with only *)
(*    the customer activities (type in CustomerTypes).                     *)
(*                                                                         *)
(* 2. CSV import.  Abstract job rows [id, lat, lng, demand, dur, tw: <<>> = *)
(*    absent | <<s, e>>] and vehicle rows [id, lat, lng, cap, s, e,        *)
(*    amount, profile]; the imported problem carries exactly this data     *)
(*    and is a valid problem.                                              *)
(*                                                                         *)
(* 3. Documents.  ser(parse(ser(d))) = ser(d) is computed on the JSON      *)
(*    values by the harness (TLC's JSON reader has no floating point);     *)
(*    here it is only a flag per document.                                 *)
(***************************************************************************)
EXTENDS Naturals, Integers, Sequences, SequencesExt, FiniteSets, FiniteSetsExt, TLC
RT_Range(s) == { s[i] : i \in 1..Len(s) }
CustomerTypes == {"pickup", "delivery", "service", "replacement"}

(***************************** 1. initial solution *************************)
RT_Customer(t) == [vehicle |-> t.vehicle, shift |-> t.shift, acts |-> SelectSeq(t.acts, LAMBDA a : a.type \in CustomerTypes)]
\* tours that serve at least one customer, as a set (the order of tours in the document is not fixed)
RT_Tours(S) == { RT_Customer(S.tours[i]) : i \in { k \in 1..Len(S.tours) : RT_Customer(S.tours[k]).acts # <<>> } }
RT_SameActivities(S, S2) == RT_Tours(S) = RT_Tours(S2)
RT_SameUnassigned(S, S2) == RT_Range(S.unassigned) = RT_Range(S2.unassigned)
\* weaker statements used to localise a difference
RT_SameJobsPerShift(S, S2) ==
  { <<t.vehicle, t.shift, { t.acts[i].job : i \in 1..Len(t.acts) }>> : t \in RT_Tours(S) } = { <<t.vehicle, t.shift, { t.acts[i].job : i \in 1..Len(t.acts) }>> : t \in RT_Tours(S2) }
RT_SameOrder(S, S2) ==
  { <<t.vehicle, t.shift, [i \in 1..Len(t.acts) |-> <<t.acts[i].job, t.acts[i].type>>]>> : t \in RT_Tours(S) }
    = { <<t.vehicle, t.shift, [i \in 1..Len(t.acts) |-> <<t.acts[i].job, t.acts[i].type>>]>> : t \in RT_Tours(S2) }

(******************************* 2. CSV import *****************************)
RT_Abs(x) == IF x < 0 THEN 0 - x ELSE x
RT_Kind(row) == IF row.demand > 0 THEN "pickup" ELSE IF row.demand < 0 THEN "delivery" ELSE "service"
\* expected tasks of a job id: one per row, in row order within its kind
RT_ExpectedTask(row) == [kind |-> RT_Kind(row), lat |-> row.lat, lng |-> row.lng, dur |-> row.dur, tw |-> row.tw,
                         hasDemand |-> row.demand # 0, demand |-> RT_Abs(row.demand)]
RT_RowsOf(rows, id) == SelectSeq(rows, LAMBDA r : r.id = id)
RT_ExpectedJob(rows, id) == [id |-> id, tasks |-> { RT_ExpectedTask(r) : r \in RT_Range(RT_RowsOf(rows, id)) }, ntasks |-> Len(RT_RowsOf(rows, id))]
RT_ExpectedJobs(rows) == { RT_ExpectedJob(rows, id) : id \in { r.id : r \in RT_Range(rows) } }
RT_ObservedJobs(P) == { [id |-> P.jobs[i].id, tasks |-> RT_Range(P.jobs[i].tasks), ntasks |-> Len(P.jobs[i].tasks)] : i \in 1..Len(P.jobs) }
RT_JobsAsTables(rows, P) == RT_ObservedJobs(P) = RT_ExpectedJobs(rows) /\ Len(P.jobs) = Cardinality(RT_ExpectedJobs(rows))
RT_ExpectedVehicle(v) == [type |-> v.id, amount |-> v.amount, cap |-> v.cap, lat |-> v.lat, lng |-> v.lng, s |-> v.s, e |-> v.e, profile |-> v.profile]
RT_VehiclesAsTables(vrows, P) ==
  /\ Len(P.vehicles) = Len(vrows)
  /\ \A i \in 1..Len(vrows) : [type |-> P.vehicles[i].type, amount |-> Len(P.vehicles[i].ids), cap |-> P.vehicles[i].cap, lat |-> P.vehicles[i].lat, lng |-> P.vehicles[i].lng,
                                s |-> P.vehicles[i].s, e |-> P.vehicles[i].e, profile |-> P.vehicles[i].profile] = RT_ExpectedVehicle(vrows[i])
  /\ RT_Range(P.profiles) = { vrows[i].profile : i \in 1..Len(vrows) }
\* the tables are well formed (what the documentation asks of them): unique vehicle type ids, positive amounts, windows in order
RT_TablesWellFormed(rows, vrows) ==
  /\ \A i, j \in 1..Len(vrows) : i # j => vrows[i].id # vrows[j].id
  /\ \A i \in 1..Len(vrows) : vrows[i].amount >= 1 /\ vrows[i].s < vrows[i].e
  /\ \A i \in 1..Len(rows) : rows[i].dur >= 0 /\ (rows[i].tw # <<>> => rows[i].tw[1] < rows[i].tw[2])
  /\ rows # <<>> /\ vrows # <<>>
  \* a job with pickups and deliveries moves what it picks up (validation rule E1102 of the target format)
  /\ \A id \in { r.id : r \in RT_Range(rows) } :
        LET rs == RT_RowsOf(rows, id)
            up == FoldLeft(LAMBDA a, r : IF r.demand > 0 THEN a + r.demand ELSE a, 0, rs)
            down == FoldLeft(LAMBDA a, r : IF r.demand < 0 THEN a - r.demand ELSE a, 0, rs) IN
        (up > 0 /\ down > 0) => up = down
=============================================================================
