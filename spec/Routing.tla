------------------------------- MODULE Routing -------------------------------
(***************************************************************************)
(* C16: what a matrix-backed routing provider must answer.  A matrix set   *)
(* is a sequence of [index (profile), ts (timestamp or -1), n, dur, dist]  *)
(* with dur / dist as n x n tables.  R_Build says whether the set is       *)
(* consistent; R_Dur / R_Dist give the answer for (profile, scale, from,   *)
(* to, t): durations scaled, distances unscaled; time-dependent sets       *)
(* answer the matrix at a matrix timestamp, the first / last matrix        *)
(* outside the covered span, and in between a linear interpolation for     *)
(* durations (exact rational num/den) and the left matrix for distances.   *)
(***************************************************************************)
EXTENDS Naturals, Integers, Sequences, SequencesExt, FiniteSets, TLC
R_Of(M, p) == SelectSeq(M, LAMBDA m : m.index = p)
R_Profiles(M) == { M[i].index : i \in 1..Len(M) }
R_TimeAware(M) == \E i \in 1..Len(M) : M[i].ts >= 0
R_Sizes(M) == { M[i].n : i \in 1..Len(M) }
\* "inconsistent matrix sets are rejected when the provider is built"
R_Build(M) ==
  /\ M # <<>>
  /\ Cardinality(R_Sizes(M)) = 1
  /\ \A i \in 1..Len(M) : M[i].nDist = M[i].nDur                          \* as many distances as durations
  /\ IF R_TimeAware(M)
     THEN /\ \A i \in 1..Len(M) : M[i].ts >= 0                            \* all matrices carry a timestamp
          /\ \A p \in R_Profiles(M) : Len(R_Of(M, p)) >= 2                \* a time series needs at least two matrices
     ELSE /\ R_Profiles(M) = 0..(Len(M) - 1)                              \* exactly one matrix per profile index 0..k-1
\* matrices of a profile in timestamp order
R_Sorted(M, p) == SortSeq(R_Of(M, p), LAMBDA a, b : a.ts < b.ts)
\* duration as a rational [num, den] (before scaling)
R_DurRat(M, p, from, to, t) ==
  IF ~R_TimeAware(M) THEN [num |-> R_Of(M, p)[1].dur[from][to], den |-> 1] ELSE
  LET s == R_Sorted(M, p) n == Len(s)
      hit == { i \in 1..n : s[i].ts = t } IN
  IF hit # {} THEN [num |-> s[CHOOSE i \in hit : TRUE].dur[from][to], den |-> 1]
  ELSE IF t < s[1].ts THEN [num |-> s[1].dur[from][to], den |-> 1]
  ELSE IF t > s[n].ts THEN [num |-> s[n].dur[from][to], den |-> 1]
  ELSE LET i == CHOOSE i \in 1..(n - 1) : s[i].ts < t /\ t < s[i + 1].ts
           l == s[i] r == s[i + 1] IN
       [num |-> l.dur[from][to] * (r.ts - l.ts) + (t - l.ts) * (r.dur[from][to] - l.dur[from][to]), den |-> r.ts - l.ts]
R_Dur(M, p, scale, from, to, t) == LET q == R_DurRat(M, p, from, to, t) IN [num |-> q.num * scale, den |-> q.den]
R_Dist(M, p, from, to, t) ==
  IF ~R_TimeAware(M) THEN R_Of(M, p)[1].dist[from][to] ELSE
  LET s == R_Sorted(M, p) n == Len(s)
      hit == { i \in 1..n : s[i].ts = t } IN
  IF hit # {} THEN s[CHOOSE i \in hit : TRUE].dist[from][to]
  ELSE IF t < s[1].ts THEN s[1].dist[from][to]
  ELSE IF t > s[n].ts THEN s[n].dist[from][to]
  ELSE s[CHOOSE i \in 1..(n - 1) : s[i].ts < t /\ t < s[i + 1].ts].dist[from][to]
=============================================================================
