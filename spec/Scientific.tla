----------------------------- MODULE Scientific -----------------------------
(***************************************************************************)
(* C13: what a Solomon / Li&Lim / TSPLIB (CVRP, EUC_2D) instance says,     *)
(* and what a core problem read from its text must therefore expose.       *)
(*                                                                         *)
(* instance  [fmt: "solomon"|"lilim"|"tsplib", rounded, k (vehicles),      *)
(*            q (capacity), depot: node, custs: Seq(node)]                 *)
(* node      [id, x, y, d (demand; Li&Lim: > 0 pickup, < 0 delivery),      *)
(*            s, e (ready / due), svc, rel (Li&Lim: id of the partner)]    *)
(* TSPLIB has no windows / service / fleet size: s = 0, e = Horizon,       *)
(* svc = 0, k = DIMENSION (the reader offers one vehicle per node).        *)
(*                                                                         *)
(* observed problem (harness projection of the core Problem):              *)
(*  [vehicles, caps: Seq, depots: Seq([x,y,s,e]), jobs: Seq([id, tasks:    *)
(*   Seq([x,y,s,e,svc, pickS,pickD,delS,delD])]), locs: Seq(<<x,y>>),      *)
(*   dist: matrix in 1/100]                                                *)
(***************************************************************************)
EXTENDS Naturals, Integers, Sequences, SequencesExt, FiniteSets, FiniteSetsExt, TLC
Horizon == 1000000
S_Range(s) == { s[i] : i \in 1..Len(s) }
S_Abs(x) == IF x < 0 THEN 0 - x ELSE x
S_Sum(s) == FoldLeft(LAMBDA a, b : a + b, 0, s)

(****************************** expected jobs ******************************)
\* a task as the core problem must hold it
S_Task(n, pickD, delS, delD) == [x |-> n.x, y |-> n.y, s |-> n.s, e |-> n.e, svc |-> n.svc, pickS |-> 0, pickD |-> pickD, delS |-> delS, delD |-> delD]
S_Node(I, id) == I.custs[CHOOSE i \in 1..Len(I.custs) : I.custs[i].id = id]
S_ExpectedJobs(I) ==
  IF I.fmt = "lilim"
  THEN { << S_Task(p, p.d, 0, 0), S_Task(S_Node(I, p.rel), 0, 0, p.d) >> : p \in { n \in S_Range(I.custs) : n.d > 0 } }   \* pickup, then delivery
  ELSE { << S_Task(n, 0, n.d, 0) >> : n \in S_Range(I.custs) }
S_ObservedJobs(P) == { P.jobs[i].tasks : i \in 1..Len(P.jobs) }
\* exactly the instance's customers (as a multiset: equal customers are counted)
S_Count(seq, x) == Cardinality({ i \in 1..Len(seq) : seq[i] = x })
S_ExpectedSeq(I) ==
  IF I.fmt = "lilim"
  THEN LET ps == SelectSeq(I.custs, LAMBDA n : n.d > 0) IN [i \in 1..Len(ps) |-> << S_Task(ps[i], ps[i].d, 0, 0), S_Task(S_Node(I, ps[i].rel), 0, 0, ps[i].d) >>]
  ELSE [i \in 1..Len(I.custs) |-> << S_Task(I.custs[i], 0, I.custs[i].d, 0) >>]
S_CustomersAsFile(I, P) ==
  /\ Len(P.jobs) = Len(S_ExpectedSeq(I))
  /\ \A t \in S_Range(S_ExpectedSeq(I)) : S_Count(S_ExpectedSeq(I), t) = S_Count([i \in 1..Len(P.jobs) |-> P.jobs[i].tasks], t)
\* ids: Solomon - the customer number; TSPLIB - node number minus one (CVRPLIB solution files count customers from 1)
S_IdsAsFile(I, P) ==
  I.fmt \in {"solomon", "tsplib"} =>
    \A n \in S_Range(I.custs) : \E i \in 1..Len(P.jobs) :
       /\ P.jobs[i].id = (IF I.fmt = "solomon" THEN n.id ELSE n.id - 1)
       /\ P.jobs[i].tasks = << S_Task(n, 0, n.d, 0) >>
S_FleetAsFile(I, P) ==
  /\ P.vehicles = I.k
  /\ \A i \in 1..Len(P.caps) : P.caps[i] = I.q
  /\ \A i \in 1..Len(P.depots) : P.depots[i] = [x |-> I.depot.x, y |-> I.depot.y, s |-> I.depot.s, e |-> I.depot.e]
  /\ Len(P.caps) = I.k /\ Len(P.depots) = I.k

(******************************** distances ********************************)
\* dC = distance in 1/100 as the provider answers; S = squared Euclidean distance
S_Sq(a, b) == (a[1] - b[1]) * (a[1] - b[1]) + (a[2] - b[2]) * (a[2] - b[2])
S_Exact(dC, S) == (dC <= 1 \/ (dC - 1) * (dC - 1) <= 10000 * S) /\ 10000 * S <= (dC + 1) * (dC + 1)          \* |d - sqrt(S)| <= 0.01
S_Rounded(dC, S) == dC % 100 = 0 /\ LET r == dC \div 100 IN (IF r = 0 THEN 4 * S < 1 ELSE (2 * r - 1) * (2 * r - 1) <= 4 * S /\ 4 * S < (2 * r + 1) * (2 * r + 1))
S_DistancesEuclidean(I, P) ==
  \A i, j \in 1..Len(P.locs) : IF I.rounded THEN S_Rounded(P.dist[i][j], S_Sq(P.locs[i], P.locs[j])) ELSE S_Exact(P.dist[i][j], S_Sq(P.locs[i], P.locs[j]))
S_LocationsAsFile(I, P) == S_Range(P.locs) = { <<n.x, n.y>> : n \in S_Range(I.custs) \cup {I.depot} }

(******* "capacity and time windows bind exactly as the file says" *********)
\* a route: sequence of customer ids in visiting order; replay with the file's data (distances: rounded Euclidean in 1/100 from P)
S_Loc(P, n) == CHOOSE i \in 1..Len(P.locs) : P.locs[i] = <<n.x, n.y>>
S_Leg(P, a, b) == P.dist[S_Loc(P, a)][S_Loc(P, b)]
\* times in 1/100
\* unrounded distances are known to 1/100 only: one hundredth of slack per leg
S_Tol(I, route) == IF I.rounded THEN 0 ELSE Len(route) + 1
S_Walk(I, P, route) ==
  FoldLeft(LAMBDA acc, id :
             LET n == S_Node(I, id)
                 arr == acc.t + S_Leg(P, acc.at, n)
                 start == IF arr < 100 * n.s THEN 100 * n.s ELSE arr IN
             [t |-> start + 100 * n.svc, at |-> n, ok |-> acc.ok /\ arr <= 100 * n.e + S_Tol(I, route)],
           [t |-> 100 * I.depot.s, at |-> I.depot, ok |-> TRUE], route)
S_TimeOk(I, P, route) == LET w == S_Walk(I, P, route) IN w.ok /\ w.t + S_Leg(P, w.at, I.depot) <= 100 * I.depot.e + S_Tol(I, route)
\* load: deliveries are on board from the depot (Solomon / TSPLIB); Li&Lim: picked up and dropped on the way
S_LoadOk(I, route) ==
  IF I.fmt = "lilim"
  THEN \A p \in 1..Len(route) : LET l == S_Sum([i \in 1..p |-> S_Node(I, route[i]).d]) IN l >= 0 /\ l <= I.q
  ELSE S_Sum([i \in 1..Len(route) |-> S_Node(I, route[i]).d]) <= I.q
S_PairsOk(I, route) ==
  I.fmt = "lilim" => \A p \in 1..Len(route) : LET n == S_Node(I, route[p]) IN
     IF n.d > 0 THEN \E r \in (p + 1)..Len(route) : route[r] = n.rel
     ELSE \E r \in 1..(p - 1) : S_Node(I, route[r]).d > 0 /\ S_Node(I, route[r]).rel = n.id
S_RoutesFeasible(I, P, routes) == \A r \in 1..Len(routes) : S_TimeOk(I, P, routes[r]) /\ S_LoadOk(I, routes[r]) /\ S_PairsOk(I, routes[r])
\* every customer is served exactly once or reported unassigned
S_RoutesPartition(I, routes, unassigned) ==
  LET served == FoldLeft(LAMBDA a, b : a \o b, <<>>, routes) IN
  /\ \A n \in S_Range(I.custs) : S_Count(served, n.id) + (IF n.id \in S_Range(unassigned) THEN 1 ELSE 0) = 1
  /\ S_Range(served) \subseteq { n.id : n \in S_Range(I.custs) }
=============================================================================
