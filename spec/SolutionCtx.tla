---------------------------- MODULE SolutionCtx ----------------------------
(***************************************************************************)
(* The solution state machine of vrp-core (SolutionContext + registry +    *)
(* per-route caches with a stale bit) with one action per linearization    *)
(* point of the code.  Decides, at design level, C02 / C04 (conservation,  *)
(* registry sync, locked jobs) and C05 (cache protocol).                   *)
(*                                                                         *)
(*   code                                         action                   *)
(*   CompositeRuin::run (entry)                   StartRuinRecreate        *)
(*   removal.rs try_remove_job                    TryRemoveJob             *)
(*   removal.rs remove_whole_route / keep_routes  RemoveWholeRoute         *)
(*   InsertionContext::restore                    Restore                  *)
(*   insertions.rs prepare_insertion_ctx          PrepareInsertion         *)
(*   insertions.rs apply_insertion_success        ApplyInsertionSuccess    *)
(*   insertions.rs apply_insertion_failure        ApplyInsertionFailure    *)
(*   tour_limits.rs notify_failure                NotifyFailureAddsRoute   *)
(*   insertions.rs finalize_insertion_ctx         FinalizeInsertion        *)
(*   local/exchange_*.rs (deep copy, remove w/o   LocalRemove,             *)
(*     `required`, goal.accept_route_state,        LocalInsert / LocalDiscard *)
(*     insert or give up)                                                  *)
(*   conditional_job.rs process_conditional_jobs  inside AcceptSolution    *)
(*                                                                         *)
(* Deliberate non-idealisations that the code has and the model keeps:     *)
(*  - `required` is a Vec: a job can be listed twice (prepare_insertion    *)
(*    copies the unassigned keys), so it is a multiplicity function here;  *)
(*  - the groups cache is only rebuilt by accept_solution_state and by     *)
(*    accept_insertion of a grouped job; goal.accept_route_state CLEARS it *)
(*    (GroupState::accept_route_state is a no-op after the clear);         *)
(*  - the per-solution aggregate (tour order violations) is only rebuilt   *)
(*    by accept_solution_state (TourOrderState::accept_insertion no-op).   *)
(***************************************************************************)
EXTENDS Naturals, Sequences, FiniteSets, TLC
CONSTANTS Jobs,       \* customer jobs
          Markers,    \* conditional jobs (reload markers / breaks), each bound to one vehicle
          Vehicles, Locked, Grouped, Compat,  \* Locked, Grouped, Compat \subseteq Jobs
          MarkerVehicle, \* [Markers -> Vehicles]
          MaxRemovals
None == "none"            \* "no job held"
NoneSeq == <<"none">>      \* a sequence-valued cache that does not exist
NoneSet == {"none"}        \* a set-valued cache that does not exist
\* model value for the configurations: every marker belongs to the first vehicle TLC picks
MC_MarkerVehicle == [m \in Markers |-> CHOOSE v \in Vehicles : TRUE]
AllJobs == Jobs \cup Markers
VARIABLES
  required,   \* [AllJobs -> 0..2]  multiplicity in the required Vec
  ignored,    \* SUBSET Markers     conditional jobs that are not wanted right now
  unassigned, \* SUBSET AllJobs
  routes,     \* [Vehicles -> Seq(AllJobs)]   (meaningful only for used vehicles)
  used,       \* SUBSET Vehicles   = routes present in solution.routes
  avail,      \* SUBSET Vehicles   = registry.available
  stale,      \* [Vehicles -> BOOLEAN]
  cT,         \* [Vehicles -> Seq \cup {None}]  transport / capacity caches: snapshot of the tour they were computed from
  cG,         \* [Vehicles -> SUBSET Jobs \cup {None}] groups cache
  cC,         \* [Vehicles -> SUBSET Jobs \cup {None}] compatibility cache
  aggO,       \* per-solution aggregate: snapshot of all tours it was computed from
  pc,         \* control state: idle | ruin | recreate0 | recreate | local
  budget,     \* remaining removals of the running ruin
  held        \* the job a local operator has taken out of a tour (or None)
vars == <<required, ignored, unassigned, routes, used, avail, stale, cT, cG, cC, aggO, pc, budget, held>>

Range(s) == { s[i] : i \in 1..Len(s) }
Without(s, j) == SelectSeq(s, LAMBDA x : x # j)
InsAt(s, j, p) == SubSeq(s, 1, p) \o <<j>> \o SubSeq(s, p + 1, Len(s))
GroupsOf(s) == Range(s) \cap Grouped
CompatOf(s) == Range(s) \cap Compat
Snapshot(u, r) == [v \in Vehicles |-> IF v \in u THEN r[v] ELSE <<>>]
RECURSIVE SeqOf(_)
SeqOf(S) == IF S = {} THEN <<>> ELSE LET x == CHOOSE x \in S : TRUE IN <<x>> \o SeqOf(S \ {x})

Init ==
  /\ required = [j \in AllJobs |-> 0]
  /\ ignored = Markers
  /\ unassigned = Jobs \ Locked
  /\ used = IF Locked = {} THEN {} ELSE {CHOOSE v \in Vehicles : TRUE}
  /\ routes = [v \in Vehicles |-> IF v \in used THEN SeqOf(Locked) ELSE <<>>]
  /\ avail = Vehicles \ used
  /\ stale = [v \in Vehicles |-> FALSE]
  /\ cT = [v \in Vehicles |-> IF v \in used THEN routes[v] ELSE NoneSeq]
  /\ cG = [v \in Vehicles |-> IF v \in used THEN GroupsOf(routes[v]) ELSE NoneSet]
  /\ cC = [v \in Vehicles |-> IF v \in used THEN CompatOf(routes[v]) ELSE NoneSet]
  /\ aggO = Snapshot(used, routes)
  /\ pc = "idle" /\ budget = 0 /\ held = None

(* goal.accept_solution_state on the primed tours: stale routes get transport/capacity/compat recomputed, groups and  *)
(* the aggregate are rebuilt for all routes, then everything is marked fresh.  Conditional jobs are promoted         *)
(* (ignored -> required, when their vehicle drives a tour without them) or demoted (required -> ignored).            *)
AcceptSolutionValsS(u, r, st) ==
  /\ cT' = [v \in Vehicles |-> IF v \in u /\ st[v] THEN r[v] ELSE IF v \in u THEN cT[v] ELSE NoneSeq]
  /\ cC' = [v \in Vehicles |-> IF v \in u /\ st[v] THEN CompatOf(r[v]) ELSE IF v \in u THEN cC[v] ELSE NoneSet]
  /\ cG' = [v \in Vehicles |-> IF v \in u THEN GroupsOf(r[v]) ELSE NoneSet]
  /\ aggO' = Snapshot(u, r)
  /\ stale' = [v \in Vehicles |-> FALSE]
AcceptSolutionVals(u, r) == AcceptSolutionValsS(u, r, stale)
Wanted(m, u, r) == MarkerVehicle[m] \in u /\ m \notin Range(r[MarkerVehicle[m]])
\* process_conditional_jobs: req = required multiplicities after the caller's own update
Conditional(req, u, r) ==
  LET inTour(m) == \E v \in u : m \in Range(r[v])
      promote == { m \in ignored : Wanted(m, u, r) }
      demote == { m \in Markers : req[m] > 0 /\ ~Wanted(m, u, r) } IN
  /\ ignored' = (ignored \ promote) \cup { m \in demote : ~inTour(m) }
  /\ required' = [j \in AllJobs |-> IF j \in promote THEN 1 ELSE IF j \in demote THEN 0 ELSE req[j]]

(******************************** ruin **************************************)
StartRuinRecreate ==
  /\ pc = "idle" /\ pc' = "ruin" /\ budget' = MaxRemovals
  /\ UNCHANGED <<required, ignored, unassigned, routes, used, avail, stale, cT, cG, cC, aggO, held>>

TryRemoveJob(v, j) ==
  /\ pc = "ruin" /\ budget > 0 /\ v \in used /\ j \in Range(routes[v]) /\ j \notin Locked
  /\ routes' = [routes EXCEPT ![v] = Without(@, j)]
  /\ stale' = [stale EXCEPT ![v] = TRUE]            \* route_mut()
  /\ required' = [required EXCEPT ![j] = @ + 1]
  /\ budget' = budget - 1
  /\ UNCHANGED <<ignored, unassigned, used, avail, cT, cG, cC, aggO, pc, held>>

RemoveWholeRoute(v) ==
  /\ pc = "ruin" /\ budget > 0 /\ v \in used /\ Range(routes[v]) \cap Locked = {} /\ routes[v] # <<>>
  /\ required' = [j \in AllJobs |-> required[j] + IF j \in Range(routes[v]) THEN 1 ELSE 0]
  /\ used' = used \ {v} /\ avail' = avail \cup {v}     \* keep_routes -> free_route
  /\ routes' = [routes EXCEPT ![v] = <<>>]
  /\ cT' = [cT EXCEPT ![v] = NoneSeq] /\ cG' = [cG EXCEPT ![v] = NoneSet] /\ cC' = [cC EXCEPT ![v] = NoneSet]
  /\ stale' = [stale EXCEPT ![v] = FALSE]
  /\ budget' = budget - 1
  /\ UNCHANGED <<ignored, unassigned, aggO, pc, held>>

\* CompositeRuin end: insertion_ctx.restore() = accept_solution_state, then remove_empty_routes
Restore ==
  /\ pc = "ruin"
  /\ LET empty == { v \in used : routes[v] = <<>> } IN
     /\ used' = used \ empty /\ avail' = avail \cup empty
     /\ routes' = routes
     /\ AcceptSolutionVals(used \ empty, routes)
     /\ Conditional(required, used \ empty, routes)
  /\ pc' = "recreate0"
  /\ UNCHANGED <<unassigned, budget, held>>

(****************************** recreate ************************************)
PrepareInsertion ==
  /\ pc = "recreate0"
  /\ used' = used /\ routes' = routes /\ avail' = avail
  /\ AcceptSolutionVals(used, routes)
  /\ Conditional([j \in AllJobs |-> required[j] + IF j \in unassigned THEN 1 ELSE 0], used, routes)
  /\ pc' = "recreate"
  /\ UNCHANGED <<unassigned, budget, held>>

ApplyInsertionSuccess(j, v, p) ==
  /\ pc = "recreate" /\ required[j] > 0
  /\ (j \in Markers => MarkerVehicle[j] = v)
  /\ \/ (v \in avail /\ used' = used \cup {v} /\ avail' = avail \ {v})   \* registry.get_route hands out a fresh route
     \/ (v \in used /\ v \notin avail /\ UNCHANGED <<used, avail>>)
  /\ p \in 0..Len(routes[v])
  /\ routes' = [routes EXCEPT ![v] = InsAt(@, j, p)]
  /\ required' = [required EXCEPT ![j] = 0]           \* retain(|x| x != job)
  /\ unassigned' = unassigned \ {j}
  \* accept_insertion: transport, capacity recompute this route (stale bit stays TRUE until accept_solution_state);
  \* compatibility recomputed iff the job has one; groups updated iff the job is grouped
  /\ stale' = [stale EXCEPT ![v] = TRUE]
  /\ cT' = [cT EXCEPT ![v] = routes'[v]]
  /\ cG' = [cG EXCEPT ![v] = IF j \in Grouped THEN (IF @ = NoneSet THEN {} ELSE @) \cup {j}
                            ELSE IF v \in avail THEN NoneSet ELSE @]
  /\ cC' = [cC EXCEPT ![v] = IF j \in Compat THEN CompatOf(routes'[v]) ELSE IF v \in avail THEN NoneSet ELSE @]
  /\ UNCHANGED <<ignored, aggO, pc, budget, held>>

ApplyInsertionFailure(j) ==
  /\ pc = "recreate" /\ required[j] > 0
  /\ unassigned' = unassigned \cup {j}
  /\ required' = [required EXCEPT ![j] = 0]
  /\ UNCHANGED <<ignored, routes, used, avail, stale, cT, cG, cC, aggO, pc, budget, held>>

\* tour_limits.rs notify_failure: an empty, rescheduled route of an available vehicle is added to the solution
NotifyFailureAddsRoute(v) ==
  /\ pc = "recreate" /\ v \in avail /\ \E j \in AllJobs : required[j] > 0
  /\ \A w \in used : routes[w] # <<>>                 \* "skip if we already have empty routes"
  /\ used' = used \cup {v} /\ avail' = avail \ {v}
  /\ routes' = [routes EXCEPT ![v] = <<>>]
  /\ stale' = [stale EXCEPT ![v] = TRUE]
  /\ cT' = [cT EXCEPT ![v] = <<>>] /\ cG' = [cG EXCEPT ![v] = NoneSet] /\ cC' = [cC EXCEPT ![v] = NoneSet]
  /\ UNCHANGED <<required, ignored, unassigned, aggO, pc, budget, held>>

\* finalize_insertion_ctx: required -> unassigned, remove_empty_routes, accept_solution_state
FinalizeInsertion ==
  /\ pc = "recreate"
  /\ unassigned' = unassigned \cup { j \in AllJobs : required[j] > 0 /\ j \notin Markers }
                              \cup { m \in Markers : required[m] > 0 }
  /\ LET empty == { v \in used : routes[v] = <<>> } IN
     /\ used' = used \ empty /\ avail' = avail \cup empty
     /\ routes' = routes
     /\ AcceptSolutionVals(used \ empty, routes)
  /\ required' = [j \in AllJobs |-> 0]
  /\ ignored' = ignored
  /\ pc' = "idle"
  /\ UNCHANGED <<budget, held>>

(**************************** local search **********************************)
\* exchange_inter_route / intra_route: works on a deep copy; a job is taken out of a tour WITHOUT going to `required`,
\* goal.accept_route_state refreshes the route (clears every cache of the route first)
LocalRemove(v, j) ==
  /\ pc = "idle" /\ v \in used /\ j \in Range(routes[v]) /\ j \notin Locked /\ j \in Jobs /\ Len(routes[v]) > 1
  /\ routes' = [routes EXCEPT ![v] = Without(@, j)]
  /\ cT' = [cT EXCEPT ![v] = routes'[v]]
  /\ cC' = [cC EXCEPT ![v] = CompatOf(routes'[v])]
  /\ cG' = [cG EXCEPT ![v] = NoneSet]                    \* cleared, GroupState::accept_route_state is a no-op
  /\ stale' = [stale EXCEPT ![v] = FALSE]
  /\ held' = j /\ pc' = "local"
  /\ UNCHANGED <<required, ignored, unassigned, used, avail, aggO, budget>>
\* the held job is inserted somewhere (apply_insertion_success + finalize -> accept_solution_state)
LocalInsert(v, p) ==
  /\ pc = "local" /\ v \in used /\ p \in 0..Len(routes[v])
  /\ routes' = [routes EXCEPT ![v] = InsAt(@, held, p)]
  /\ used' = used /\ avail' = avail
  /\ AcceptSolutionValsS(used, routes', [stale EXCEPT ![v] = TRUE])   \* route_mut() marks the route stale
  /\ held' = None /\ pc' = "idle"
  /\ UNCHANGED <<required, ignored, unassigned, budget>>
\* no feasible place: the operator returns None, the copy is dropped (modelled as putting the job back)
LocalDiscard(v, p) ==
  /\ pc = "local" /\ v \in used /\ p \in 0..Len(routes[v])
  /\ routes' = [routes EXCEPT ![v] = InsAt(@, held, p)]
  /\ used' = used /\ avail' = avail
  /\ AcceptSolutionValsS(used, routes', [stale EXCEPT ![v] = TRUE])
  /\ held' = None /\ pc' = "idle"
  /\ UNCHANGED <<required, ignored, unassigned, budget>>

Next ==
  \/ StartRuinRecreate
  \/ \E v \in Vehicles, j \in AllJobs : TryRemoveJob(v, j)
  \/ \E v \in Vehicles : RemoveWholeRoute(v)
  \/ Restore
  \/ PrepareInsertion
  \/ \E j \in AllJobs, v \in Vehicles, p \in 0..Cardinality(AllJobs) : ApplyInsertionSuccess(j, v, p)
  \/ \E j \in AllJobs : ApplyInsertionFailure(j)
  \/ \E v \in Vehicles : NotifyFailureAddsRoute(v)
  \/ FinalizeInsertion
  \/ \E v \in Vehicles, j \in Jobs : LocalRemove(v, j)
  \/ \E v \in Vehicles, p \in 0..Cardinality(AllJobs) : LocalInsert(v, p)

Spec == Init /\ [][Next]_vars

(******************************* invariants *********************************)
InTours(j) == Cardinality({ v \in used : j \in Range(routes[v]) })
Places(j) == (IF required[j] > 0 \/ j \in ignored THEN 1 ELSE 0) + (IF j \in unassigned THEN 1 ELSE 0) + InTours(j)
             + (IF held = j THEN 1 ELSE 0)
Quiescent == pc \in {"idle", "recreate0"}
\* C04 / C02: every job lives in exactly one place at operator boundaries
Conservation == Quiescent => \A j \in AllJobs : Places(j) = 1
\* a job is never lost, not even inside an operator
NeverLost == \A j \in AllJobs : Places(j) >= 1
NoDupInRoute == \A v \in used : \A i, k \in 1..Len(routes[v]) : i # k => routes[v][i] # routes[v][k]
\* C04: vehicle bookkeeping matches the tours
RegistrySync == avail = Vehicles \ used
\* C04: pinned jobs stay on a tour
LockedPinned == \A j \in Locked : \E v \in used : j \in Range(routes[v])
MarkersOnOwnVehicle == \A m \in Markers, v \in used : m \in Range(routes[v]) => v = MarkerVehicle[m]
\* C05 at hand-over: every cache equals recomputation from the bare tours
CacheFreshHandOver == Quiescent =>
   /\ \A v \in used : cT[v] = routes[v] /\ cG[v] = GroupsOf(routes[v]) /\ cC[v] = CompatOf(routes[v]) /\ ~stale[v]
   /\ aggO = Snapshot(used, routes)
\* C05 "after every single insertion during construction": route level caches of every route
CacheFreshAfterInsertion == pc = "recreate" =>
   \A v \in used : cT[v] = routes[v]
                   /\ (cG[v] = NoneSet => GroupsOf(routes[v]) = {}) /\ (cG[v] # NoneSet => cG[v] = GroupsOf(routes[v]))
                   /\ (cC[v] = NoneSet => CompatOf(routes[v]) = {}) /\ (cC[v] # NoneSet => cC[v] = CompatOf(routes[v]))
\* the per-solution aggregate after every insertion: known NOT to hold (tour order violations are only refreshed by
\* accept_solution_state); kept as a named property so that TLC produces the shortest witness (MC_SolutionCtx_agg.cfg)
AggFreshAfterInsertion == pc = "recreate" => aggO = Snapshot(used, routes)
\* C02: a returned solution has no empty tour (finalize removes them)
NoEmptyRoutesIdle == pc = "idle" => \A v \in used : routes[v] # <<>>
\* inside a local move the groups cache of the touched route is gone: the group rule cannot see that route
GroupsVisibleInLocal == pc = "local" => \A v \in used : cG[v] # NoneSet
=============================================================================
