------------------------------- MODULE Solver -------------------------------
(***************************************************************************)
(* Control loop of the solver (rosomaxa simulator.rs + strategies/         *)
(* iterative.rs + insertion heuristic) with every point where the          *)
(* computation quota or the termination criterion is consulted as its own  *)
(* action.  Quota and time limit are monotone flags that an adversary may  *)
(* raise at any moment (FireQuota / FireTerm).  Decides C07 at design      *)
(* level: the solver always returns a solution, never starts a generation  *)
(* after the guard saw the quota / termination, never exceeds MaxGen.      *)
(*                                                                         *)
(*   code                                              action              *)
(*   simulator.rs run: pre-processing hooks            PreProcess          *)
(*   simulator.rs initial loop: is_termination/estimate InitCheck          *)
(*   InsertionHeuristic::process quota test            BuildPoll           *)
(*   ... construction ends (jobs left -> unassigned)   BuildDone           *)
(*   iterative.rs loop guard: is_termination           LoopTerm            *)
(*   iterative.rs loop guard: quota.is_reached         LoopQuota           *)
(*   quota polls inside search operators               GenPoll             *)
(*   on_generation                                     GenDone             *)
(*   on_result (+ post-processing)                     Post                *)
(***************************************************************************)
EXTENDS Naturals, Sequences, TLC
CONSTANTS MaxGen,      \* configured maximum of generations
          InitMax,     \* initial.max_size
          MaxPolls,    \* bound on quota polls inside one construction / generation (model bound only)
          GenSlack     \* 0 = as documented; 1 = what the code does: the generation counter consulted by the MaxGeneration
                       \* criterion is the index of the last finished generation (0 before AND after the first one), so
                       \* the criterion fires one generation late (named deviation, see GenerationsBounded)
VARIABLES pc,          \* pre | init | build | loopq | gen | post | done
          pop,         \* individuals in the population
          gen,         \* finished generations
          idx,         \* index in the initial loop
          quota, term, \* monotone adversary flags: computation quota reached / time limit reached
          sawTerm,     \* what the last LoopTerm answered (the guard evaluates both tests before deciding)
          polls,       \* polls made by the running construction / generation
          result       \* none | ok | err
vars == <<pc, pop, gen, idx, quota, term, sawTerm, polls, result>>

\* the generation limit as the criterion sees it.  Documented (GenSlack = 0): the number of finished generations has reached the
\* maximum.  Code (GenSlack = 1): the counter it consults is the index of the last finished generation - 0 before the first
\* generation and still 0 after it - so a maximum of 0 stops at once and a maximum N >= 1 stops after N + 1 generations
LastIndex == IF gen = 0 THEN 0 ELSE gen - 1
GenLimitReached == IF GenSlack = 0 THEN gen >= MaxGen ELSE LastIndex >= MaxGen
Terminated == term \/ GenLimitReached

Init == /\ pc = "pre" /\ pop = 0 /\ gen = 0 /\ idx = 0 /\ quota = FALSE /\ term = FALSE /\ sawTerm = FALSE
        /\ polls = 0 /\ result = "none"

FireQuota == pc # "done" /\ ~quota /\ quota' = TRUE /\ UNCHANGED <<pc, pop, gen, idx, term, sawTerm, polls, result>>
FireTerm == pc # "done" /\ ~term /\ term' = TRUE /\ UNCHANGED <<pc, pop, gen, idx, quota, sawTerm, polls, result>>

PreProcess == pc = "pre" /\ pc' = "init" /\ UNCHANGED <<pop, gen, idx, quota, term, sawTerm, polls, result>>

\* one round of the initial loop: the termination test; building stops only once there is something to return
InitCheck(answer) ==
  /\ pc = "init" /\ idx < InitMax /\ answer = Terminated
  /\ IF pop > 0 /\ answer
     THEN pc' = "loopt" /\ UNCHANGED polls
     ELSE pc' = "build" /\ polls' = 0
  /\ UNCHANGED <<pop, gen, idx, quota, term, sawTerm, result>>
\* idx reached InitMax without a test (the range is exhausted)
InitExhausted == pc = "init" /\ idx >= InitMax /\ pc' = "loopt" /\ UNCHANGED <<pop, gen, idx, quota, term, sawTerm, polls, result>>

\* the insertion loop asks the quota before every insertion; when it is reached the rest stays unassigned
BuildPoll(answer) ==
  /\ pc = "build" /\ polls < MaxPolls /\ answer = quota
  /\ IF answer THEN pc' = "init" /\ pop' = pop + 1 /\ idx' = idx + 1 /\ polls' = 0
               ELSE polls' = polls + 1 /\ UNCHANGED <<pc, pop, idx>>
  /\ UNCHANGED <<gen, quota, term, sawTerm, result>>
BuildDone == pc = "build" /\ pc' = "init" /\ pop' = pop + 1 /\ idx' = idx + 1 /\ polls' = 0
             /\ UNCHANGED <<gen, quota, term, sawTerm, result>>

\* the guard of the evolution loop evaluates both tests, then decides
LoopTerm(answer) == /\ pc = "loopt" /\ answer = Terminated /\ sawTerm' = answer /\ pc' = "loopq"
                    /\ UNCHANGED <<pop, gen, idx, quota, term, polls, result>>
LoopQuota(answer) == /\ pc = "loopq" /\ answer = quota
                     /\ IF sawTerm \/ answer THEN pc' = "post" /\ UNCHANGED polls ELSE pc' = "gen" /\ polls' = 0
                     /\ UNCHANGED <<pop, gen, idx, quota, term, sawTerm, result>>
GenPoll(answer) == /\ pc = "gen" /\ polls < MaxPolls /\ answer = quota /\ polls' = polls + 1
                   /\ UNCHANGED <<pc, pop, gen, idx, quota, term, sawTerm, result>>
GenDone == pc = "gen" /\ gen' = gen + 1 /\ pc' = "loopt" /\ polls' = 0 /\ pop' = (IF pop = 0 THEN 1 ELSE pop)
           /\ UNCHANGED <<idx, quota, term, sawTerm, result>>
Post == pc = "post" /\ pc' = "done" /\ result' = (IF pop > 0 THEN "ok" ELSE "err")
        /\ UNCHANGED <<pop, gen, idx, quota, term, sawTerm, polls>>

Next == \/ FireQuota \/ FireTerm \/ PreProcess \/ InitExhausted \/ BuildDone \/ GenDone \/ Post
        \/ \E b \in BOOLEAN : InitCheck(b) \/ BuildPoll(b) \/ LoopTerm(b) \/ LoopQuota(b) \/ GenPoll(b)
Spec == Init /\ [][Next]_vars /\ WF_vars(Next)

\* C07 "the solver still returns normally with a solution"
ReturnsSolution == pc = "done" => result = "ok"
\* C07 "it never runs more generations than the configured maximum"
GenerationsBounded == gen <= MaxGen
\* once the guard has seen the quota or the limit no generation starts
NoGenerationAfterStop == [][(pc = "loopq" /\ (sawTerm \/ quota)) => pc' \in {"loopq", "post"}]_vars
\* liveness: the run ends (every construction and generation is finite in the model)
Terminates == <>(pc = "done")
=============================================================================
