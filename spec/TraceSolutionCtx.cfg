SPECIFICATION Spec
CHECK_DEADLOCK FALSE
INVARIANT J_Conservation
INVARIANT J_NoAlienJobs
INVARIANT J_NoDuplicateEntries
INVARIANT J_RegistrySync
INVARIANT J_TourJobsSync
INVARIANT J_MultiWhole
INVARIANT J_ParentUnchanged
INVARIANT J_CacheFresh
INVARIANT J_VectorsFreshAfterEveryInsertion
INVARIANT J_TourScalarsFreshAfterEveryInsertion
INVARIANT J_AggregatesFreshAfterEveryInsertion
INVARIANT J_FitnessFunctionOfTours
INVARIANT J_PlacesAndWindows
INVARIANT J_Reach
INVARIANT J_ShiftStart
INVARIANT J_DepartureNotBeforeEarliest
INVARIANT J_DepartureNotAfterLatest
INVARIANT J_ShiftEnd
INVARIANT J_Capacity
INVARIANT J_Skills
INVARIANT J_LimitDistance
INVARIANT J_RechargeDistance
INVARIANT J_LimitDuration
INVARIANT J_LimitTourSize
INVARIANT J_Groups
INVARIANT J_Compat
INVARIANT J_OrderHard
INVARIANT J_RelationVehicle
INVARIANT J_RelationOrder
INVARIANT J_ConditionalDistinct
INVARIANT J_ScheduleArrivals
INVARIANT J_ScheduleDepartures
INVARIANT J_ReportedLoad
INVARIANT J_StopDistances
INVARIANT J_TourStat
