------------------------- MODULE TraceSolutionCtx -------------------------
(***************************************************************************)
(* T binding for C04 / C05 (macro traces, DESIGN section 6 C04): every     *)
(* observed state of a recorded operator history is one trace line.  The   *)
(* line carries the four job containers, the tours, the registry view, the *)
(* state written as a solution (cached schedules, loads, totals as the     *)
(* writer reports them), digests of the parent before/after the operator   *)
(* and digests of the caches before/after recomputation from bare tours.   *)
(* The abstract state and its invariant are those of SolutionCtx.tla at    *)
(* operator boundaries (pc = "idle" / after Restore); hard constraints and *)
(* schedules are judged by VrpModel.                                       *)
(***************************************************************************)
EXTENDS VrpModel, Json, IOUtils
Probs == ndJsonDeserialize(IOEnv.PROBS)
Steps == ndJsonDeserialize(IOEnv.STEPS)
VARIABLE l
E == Steps[l]                       \* the event
P == Probs[E.pix]                   \* its problem (abstract, integer)
R == P @@ E.sol                     \* VrpModel record: problem part + solution part
Judge(name, ok) == ok \/ PrintT("VERDICT-FAIL " \o name \o " " \o ToString(l) \o " " \o E.id)
Init == l = 1
Next == l < Len(Steps) /\ l' = l + 1
Spec == Init /\ [][Next]_l

S == E.state
T_Set(s) == { s[i] : i \in 1..Len(s) }
T_Count(s, x) == Cardinality({ i \in 1..Len(s) : s[i] = x })
T_RouteJobs(k) == T_Set(S.routes[k].jobs)
T_RouteActs(k) == { a \in T_Set(S.routes[k].acts) : a # "" }
T_InTours(j) == Cardinality({ k \in 1..Len(S.routes) : j \in T_RouteJobs(k) })
T_Pending(j) == IF j \in T_Set(S.required) \cup T_Set(S.ignored) THEN 1 ELSE 0
T_Unassigned(j) == IF j \in T_Set(S.unassigned) THEN 1 ELSE 0
T_Key(k) == S.routes[k].vehicle \o "#" \o ToString(S.routes[k].shift)

(* C04 "every job lives in exactly one place (one tour, unassigned, or pending)" *)
Conservation == \A j \in T_Set(P.universe) : T_InTours(j) + T_Unassigned(j) + T_Pending(j) = 1
(* ... and is listed there once: the pending containers are vectors in the code, a job listed twice is counted twice *)
(* by get_jobs_amount (which switches features into their "partial solution" mode)                              *)
NoDuplicateEntries ==
  /\ \A j \in T_Set(S.required) : T_Count(S.required, j) = 1
  /\ \A j \in T_Set(S.ignored) : T_Count(S.ignored, j) = 1
  /\ T_Set(S.required) \cap T_Set(S.ignored) = {}
(* no job outside the universe of the problem appears anywhere *)
NoAlienJobs == (T_Set(S.required) \cup T_Set(S.ignored) \cup T_Set(S.unassigned)
                \cup UNION { T_RouteJobs(k) : k \in 1..Len(S.routes) }) \subseteq T_Set(P.universe)
(* C04 "each vehicle drives at most one tour and the vehicle bookkeeping matches the tours" *)
RegistrySync ==
  LET used == { T_Key(k) : k \in 1..Len(S.routes) } IN
  /\ Cardinality(used) = Len(S.routes)
  /\ used \cap T_Set(S.available) = {}
  /\ used \cup T_Set(S.available) = T_Set(S.allActors)
(* C14 flavour: a tour's job set equals the jobs of its activities, counts agree *)
TourJobsSync == \A k \in 1..Len(S.routes) :
  /\ T_RouteJobs(k) = T_RouteActs(k)
  /\ S.routes[k].jobCount = Cardinality(T_RouteJobs(k))
  /\ S.routes[k].total = Len(S.routes[k].acts)
(* C04 "multi-part jobs stay whole and in a permitted order" *)
MultiWhole == \A i \in 1..Len(R.jobs) :
  LET j == R.jobs[i] ts == V_ToursOf(R, j.id) IN
  \/ ts = {}
  \/ /\ Cardinality(ts) = 1
     /\ LET t == R.tours[CHOOSE k \in ts : TRUE] IN
        /\ \A kind \in V_JobKinds : Cardinality(V_Pos(t, j.id, kind)) = V_NTasks(j, kind)
        /\ \A p \in V_Pos(t, j.id, "pickup"), q \in V_Pos(t, j.id, "delivery") : p < q
(* C04 "the parent solution handed to the step is left observably unchanged" *)
ParentUnchanged == E.parentBefore = E.parentAfter

(* C05 "all cached quantities equal what is obtained by discarding the caches and recomputing from the tours alone" *)
CacheFresh == E.cache.fix => E.cache.d1 = E.cache.d2
(* C05 "objective values are a function of the tours only, two solutions with identical tours compare equal" *)
FitnessFunctionOfTours == E.cache.fix => (E.fitEqual /\ E.orderEqual)

J_Conservation == Judge("Conservation", Conservation)
J_NoAlienJobs == Judge("NoAlienJobs", NoAlienJobs)
J_NoDuplicateEntries == Judge("NoDuplicateEntries", NoDuplicateEntries)
J_RegistrySync == Judge("RegistrySync", RegistrySync)
J_TourJobsSync == Judge("TourJobsSync", TourJobsSync)
J_MultiWhole == Judge("MultiWhole", MultiWhole)
J_ParentUnchanged == Judge("ParentUnchanged", ParentUnchanged)
\* hook H2 (insertion observer): the same comparison right after EVERY SINGLE INSERTION made while this state was built
\* (construction and recreate steps; E.ins counts the insertions after which some cached line differed from recomputation).
\* Vectors = activity schedules, latest arrivals, waiting, load profiles, reload intervals (what feasibility is decided on);
\* tour scalars = per-tour counters / sets / sums; aggregates = per-solution values.
VectorsFreshAfterEveryInsertion == E.ins.routeStale = 0
TourScalarsFreshAfterEveryInsertion == E.ins.scalarStale = 0
AggregatesFreshAfterEveryInsertion == E.ins.solStale = 0
J_VectorsFreshAfterEveryInsertion == Judge("VectorsFreshAfterEveryInsertion", VectorsFreshAfterEveryInsertion)
J_TourScalarsFreshAfterEveryInsertion == Judge("TourScalarsFreshAfterEveryInsertion", TourScalarsFreshAfterEveryInsertion)
J_AggregatesFreshAfterEveryInsertion == Judge("AggregatesFreshAfterEveryInsertion", AggregatesFreshAfterEveryInsertion)
J_CacheFresh == Judge("CacheFresh", CacheFresh)
J_FitnessFunctionOfTours == Judge("FitnessFunctionOfTours", FitnessFunctionOfTours)
\* C04 "what is assigned satisfies all hard constraints" (VrpModel!Feasible, conjunct by conjunct)
J_PlacesAndWindows == Judge("PlacesAndWindows", PlacesAndWindows(R))
J_Reach == Judge("Reach", Reach(R))
J_ShiftStart == Judge("ShiftStart", ShiftStart(R))
J_DepartureNotBeforeEarliest == Judge("DepartureNotBeforeEarliest", DepartureNotBeforeEarliest(R))
J_DepartureNotAfterLatest == Judge("DepartureNotAfterLatest", DepartureNotAfterLatest(R))
J_ShiftEnd == Judge("ShiftEnd", ShiftEnd(R))
J_Capacity == Judge("Capacity", Capacity(R))
J_Skills == Judge("Skills", Skills(R))
J_RechargeDistance == Judge("RechargeDistance", RechargeDistance(R))
J_LimitDistance == Judge("LimitDistance", LimitDistance(R))
J_LimitDuration == Judge("LimitDuration", LimitDuration(R))
J_LimitTourSize == Judge("LimitTourSize", LimitTourSize(R))
J_Groups == Judge("Groups", Groups(R))
J_Compat == Judge("Compat", Compat(R))
J_OrderHard == Judge("OrderHard", OrderHard(R))
J_RelationVehicle == Judge("RelationVehicle", RelationVehicle(R))
J_RelationOrder == Judge("RelationOrder", RelationOrder(R))
J_ConditionalDistinct == Judge("ConditionalDistinct", ConditionalDistinct(R))
\* C05 at the level of public observables: cached schedules / loads / totals equal the replay from the tours
J_ScheduleArrivals == Judge("ScheduleArrivals", ScheduleArrivals(R))
J_ScheduleDepartures == Judge("ScheduleDepartures", ScheduleDepartures(R))
J_ReportedLoad == Judge("ReportedLoad", ReportedLoad(R))
J_StopDistances == Judge("StopDistances", StopDistances(R))
J_TourStat == Judge("TourStat", TourStat(R))
=============================================================================
