SPECIFICATION TSpec
CONSTANTS
  MaxGen = 3
  InitMax = 4
  GenSlack = 1
INVARIANT ReturnsSolution
INVARIANT GenerationsBounded
CONSTRAINT Track
POSTCONDITION Accepted
CHECK_DEADLOCK FALSE
