----------------------------- MODULE TraceSolver -----------------------------
(* T binding of C07: every interrupted run of the real solver (harness bin `quota`) is one recorded sequence of quota polls *)
(* (q0/q1) and termination checks (t0/t1) in call order plus the outcome.  A run is accepted iff its event sequence is a    *)
(* behaviour of Solver.tla that ends in pc = "done" with the logged outcome and number of generations.  Runs are            *)
(* concatenated; silent steps (construction / generation finished, adversary raising a flag) are bounded by look-ahead.    *)
EXTENDS Naturals, Sequences, TLC, Json, IOUtils
Runs == ndJsonDeserialize(IOEnv.RUNS)
VARIABLES pc, pop, gen, idx, quota, term, sawTerm, polls, result, run, i
svars == <<pc, pop, gen, idx, quota, term, sawTerm, polls, result>>
RunRec == Runs[run]
CONSTANTS MaxGen, InitMax, GenSlack        \* shared by all runs of one file (the driver groups runs by configuration)
MaxPolls == 1000000
S == INSTANCE Solver
Ev(k) == RunRec.events[k]
More == i <= Len(RunRec.events)
NextIs(e, b) == More /\ Ev(i).e = e /\ Ev(i).b = b
NextKind(e) == More /\ Ev(i).e = e
Consume == i' = i + 1 /\ run' = run
Silent == i' = i /\ run' = run

ASSUME \A k \in 1..Len(Runs) : Runs[k].maxGenerations = MaxGen /\ Runs[k].initMax = InitMax
TInit == TLCSet(1, 0) /\ S!Init /\ run = 1 /\ i = 1
\* events
TInitCheck == \E b \in BOOLEAN : NextIs("t", b) /\ S!InitCheck(b) /\ Consume
TBuildPoll == \E b \in BOOLEAN : NextIs("q", b) /\ S!BuildPoll(b) /\ Consume
TLoopTerm == \E b \in BOOLEAN : NextIs("t", b) /\ S!LoopTerm(b) /\ Consume
TLoopQuota == \E b \in BOOLEAN : NextIs("q", b) /\ S!LoopQuota(b) /\ Consume
TGenPoll == \E b \in BOOLEAN : NextIs("q", b) /\ S!GenPoll(b) /\ Consume
\* silent steps, enabled only when the next event needs them
TFireQuota == NextIs("q", TRUE) /\ S!FireQuota /\ Silent
\* the time limit / injected criterion exists only in the runs that have one (modes term, realtime): elsewhere a positive answer
\* of the termination test has to be explained by the generation limit
TFireTerm == NextIs("t", TRUE) /\ ~S!GenLimitReached /\ RunRec.mode \in {"term", "realtime"} /\ S!FireTerm /\ Silent
TPre == S!PreProcess /\ Silent
TInitExhausted == S!InitExhausted /\ Silent
TBuildDone == (~More \/ NextKind("t")) /\ S!BuildDone /\ Silent
TGenDone == (~More \/ NextKind("t")) /\ S!GenDone /\ Silent
TPost == ~More /\ S!Post /\ Silent
\* the run is over: outcome and generation count as logged, then the next run starts from the initial state
TNextRun == /\ pc = "done" /\ ~More
            /\ result = RunRec.status
            \* telemetry reports the 0-based index of the last generation
            /\ (RunRec.generations >= 0 => RunRec.generations = (IF gen = 0 THEN 0 ELSE gen - 1))
            /\ run' = run + 1 /\ i' = 1
            /\ pc' = "pre" /\ pop' = 0 /\ gen' = 0 /\ idx' = 0 /\ quota' = FALSE /\ term' = FALSE /\ sawTerm' = FALSE
            /\ polls' = 0 /\ result' = "none"
TNext == run <= Len(Runs) /\
         (\/ TInitCheck \/ TBuildPoll \/ TLoopTerm \/ TLoopQuota \/ TGenPoll \/ TFireQuota \/ TFireTerm \/ TPre
          \/ TInitExhausted \/ TBuildDone \/ TGenDone \/ TPost \/ TNextRun)
TSpec == TInit /\ [][TNext]_<<svars, run, i>>
\* every invariant of the design is evaluated in every state of every accepted run
ReturnsSolution == S!ReturnsSolution
\* judged once per run, when it is over ("it never runs more generations than the configured maximum")
GenerationsBounded == (run <= Len(Runs) /\ pc = "done" /\ gen > MaxGen) =>
                         PrintT("VERDICT-FAIL GenerationsBounded " \o ToString(run) \o " " \o RunRec.id)
\* progress register: highest run index reached (the first run that cannot be explained is Furthest)
Track == TLCSet(1, IF TLCGet(1) > run THEN TLCGet(1) ELSE run)
TrackInit == TLCSet(1, 0)
Accepted == IF TLCGet(1) = Len(Runs) + 1 THEN TRUE
            ELSE PrintT("TRACE-REJECTED run " \o ToString(TLCGet(1)) \o " " \o Runs[TLCGet(1)].id) /\ FALSE
=============================================================================
