----------------------------- MODULE Validation -----------------------------
(***************************************************************************)
(* C10: the documented validation rules (docs/src/concepts/pragmatic/      *)
(* errors/index.md) as predicates over an abstract problem document.       *)
(* For every rule R two readings:                                          *)
(*   Must(R, d) - the documentation unambiguously says d breaks R;         *)
(*   May(R, d)  - the documentation can be read that way (Must => May).    *)
(* The code is right on d iff it does not crash and                        *)
(*      { R : Must(R, d) }  \subseteq  codes(read(d))  \subseteq  { R : May(R, d) }  *)
(* and it accepts d iff it reports no code.                                *)
(*                                                                         *)
(* Abstract document (all leaves are integers, strings, booleans):         *)
(*  window  [n, s, e]   n = length of the string array (2 = well formed),  *)
(*                      s / e = hour of the day, -1 = not an RFC3339 date  *)
(*  place   [loc: [k: "i"|"g", v], dur: "pos"|"zero"|"neg"|"negzero",      *)
(*           hasTimes, ws: Seq(window)]                                    *)
(*  task    [kind: "pickup"|"delivery"|"replacement"|"service", hasDemand, *)
(*           demand: Seq(Int), hasOrder, order, places: Seq(place)]        *)
(*  job     [id, hasValue, value, tasks]                                   *)
(*  break   [v: "opt-tw"|"opt-off"|"req-exact"|"req-off", a, b, dur]       *)
(*           (a, b: hours for -tw / -exact, offsets in hours for -off)     *)
(*  reload  [hasTimes, ws, res: resource id or ""]                         *)
(*  shift   [earliest, hasLatest, latest, hasEnd, endLatest, hasBreaks,    *)
(*           breaks, hasReloads, reloads, loc]                             *)
(*  vehicle [typeId, ids, profile, costDist, costTime, shifts, cap]        *)
(*  relation [type: "any"|"sequence"|"strict", vehicle, hasShift, shift,   *)
(*            jobs: Seq(STRING)]                                           *)
(*  objective [type, inner: Seq(STRING)]  (inner # <<>> only for           *)
(*            "multi-objective")                                           *)
(*  doc     [jobs, vehicles, profiles, hasResources, resources,            *)
(*           hasRelations, relations, hasObjectives, objectives,           *)
(*           matrices: Seq([size])]  (one matrix per profile, in order;    *)
(*           <<>> = no matrix supplied)                                    *)
(***************************************************************************)
EXTENDS Naturals, Integers, Sequences, SequencesExt, FiniteSets, FiniteSetsExt, TLC

V_Range(s) == { s[i] : i \in 1..Len(s) }
V_Sum(s) == FoldLeft(LAMBDA a, b : a + b, 0, s)
V_Count(s, x) == Cardinality({ i \in 1..Len(s) : s[i] = x })
V_HasDup(s) == \E i, j \in 1..Len(s) : i # j /\ s[i] = s[j]
V_Flat(ss) == FoldLeft(LAMBDA a, b : a \o b, <<>>, ss)
V_At(s, i) == IF i \in 1..Len(s) THEN s[i] ELSE 0
V_Reserved == {"departure", "arrival", "break", "reload"}
V_CostTypes == {"minimize-cost", "minimize-distance", "minimize-duration"}

Codes == {"E1100", "E1101", "E1102", "E1103", "E1104", "E1105", "E1106", "E1107",
          "E1200", "E1201", "E1202", "E1203", "E1204", "E1205", "E1206", "E1207",
          "E1300", "E1301", "E1302", "E1303", "E1304", "E1306", "E1307", "E1308",
          "E1500", "E1501", "E1502", "E1503", "E1504", "E1505",
          "E1600", "E1601", "E1602", "E1603", "E1604", "E1605", "E1606", "E1607"}

(******************************* time windows ******************************)
W_Bad(w) == w.n # 2 \/ w.s < 0 \/ w.e < 0
W_Rev(w) == ~W_Bad(w) /\ w.e < w.s
W_Zero(w) == ~W_Bad(w) /\ w.e = w.s
W_Fine(w) == ~W_Bad(w) /\ w.s <= w.e
W_Overlap(a, b) == W_Fine(a) /\ W_Fine(b) /\ a.s < b.e /\ b.s < a.e      \* share more than a point
W_Touch(a, b) == W_Fine(a) /\ W_Fine(b) /\ a.s <= b.e /\ b.s <= a.e       \* share at least a point
\* the three criteria of E1103 for one list of windows
WS_Must(ws, intersections) ==
  \/ \E i \in 1..Len(ws) : W_Bad(ws[i]) \/ W_Rev(ws[i])
  \/ intersections /\ \E i, j \in 1..Len(ws) : i # j /\ W_Overlap(ws[i], ws[j])
WS_May(ws, intersections) ==
  \/ WS_Must(ws, intersections)
  \/ ws = <<>>                                                  \* a present, empty list: nothing is said
  \/ \E i \in 1..Len(ws) : W_Zero(ws[i])                        \* "start is earlier than end": is equal allowed?
  \/ intersections /\ \E i, j \in 1..Len(ws) : i # j /\ W_Touch(ws[i], ws[j])

(********************************** jobs ***********************************)
J_Tasks(j, kind) == SelectSeq(j.tasks, LAMBDA t : t.kind = kind)
J_Places(j) == V_Flat([i \in 1..Len(j.tasks) |-> j.tasks[i].places])
J_DemandSum(j, kind, dim) == V_Sum([i \in 1..Len(J_Tasks(j, kind)) |->
                                  IF J_Tasks(j, kind)[i].hasDemand THEN V_At(J_Tasks(j, kind)[i].demand, dim) ELSE 0])
D_JobIds(d) == [i \in 1..Len(d.jobs) |-> d.jobs[i].id]
D_Job(d, id) == d.jobs[CHOOSE i \in 1..Len(d.jobs) : d.jobs[i].id = id]
D_HasJob(d, id) == \E i \in 1..Len(d.jobs) : d.jobs[i].id = id
AnyJob(d, P(_)) == \E i \in 1..Len(d.jobs) : P(d.jobs[i])
AnyTask(d, P(_)) == \E i \in 1..Len(d.jobs) : \E k \in 1..Len(d.jobs[i].tasks) : P(d.jobs[i].tasks[k])
AnyPlace(d, P(_)) == AnyTask(d, LAMBDA t : \E p \in 1..Len(t.places) : P(t.places[p]))

(********************************* vehicles ********************************)
D_VehicleIds(d) == V_Flat([i \in 1..Len(d.vehicles) |-> d.vehicles[i].ids])
D_HasVehicle(d, id) == id \in V_Range(D_VehicleIds(d))
D_VehicleOf(d, id) == d.vehicles[CHOOSE i \in 1..Len(d.vehicles) : id \in V_Range(d.vehicles[i].ids)]
AnyVehicle(d, P(_)) == \E i \in 1..Len(d.vehicles) : P(d.vehicles[i])
AnyShift(d, P(_)) == AnyVehicle(d, LAMBDA v : \E s \in 1..Len(v.shifts) : P(v.shifts[s]))
S_Window(s) == [n |-> 2, s |-> s.earliest, e |-> IF s.hasEnd THEN s.endLatest ELSE 1000]    \* no end: open
\* break windows that have an absolute position (offset breaks are relative to the departure)
B_Window(s, b) == CASE b.v = "opt-tw" -> [n |-> 2, s |-> b.a, e |-> b.b]
                    [] b.v = "req-exact" -> [n |-> 2, s |-> b.a, e |-> IF b.b < 0 THEN b.b ELSE b.b + b.dur]
                    [] b.v = "req-off" -> [n |-> 2, s |-> IF s.earliest < 0 THEN 0 - 1 ELSE s.earliest + b.a,
                                                   e |-> IF s.earliest < 0 THEN 0 - 1 ELSE s.earliest + b.b + b.dur]
                    [] OTHER -> [n |-> 0, s |-> 0, e |-> 0]
B_Positioned(b) == b.v \in {"opt-tw", "req-exact", "req-off"}
S_BreakWindows(s) == LET bs == SelectSeq(s.breaks, B_Positioned) IN [i \in 1..Len(bs) |-> B_Window(s, bs[i])]
\* an offset break of a shift whose start is not a date: E1302 certainly, E1303 only arguably
S_BreakWindowsCertain(s) == LET bs == SelectSeq(s.breaks, LAMBDA b : B_Positioned(b) /\ ~(b.v = "req-off" /\ s.earliest < 0)) IN [i \in 1..Len(bs) |-> B_Window(s, bs[i])]
S_ReloadWindows(s) == V_Flat([i \in 1..Len(s.reloads) |-> IF s.reloads[i].hasTimes THEN s.reloads[i].ws ELSE <<>>])
\* relation of a list of windows to the shift they belong to
Outside(ws, sw) == W_Fine(sw) /\ \E i \in 1..Len(ws) : W_Fine(ws[i]) /\ ~W_Touch(ws[i], sw)       \* entirely outside
NotInside(ws, sw) == W_Fine(sw) /\ \E i \in 1..Len(ws) : W_Fine(ws[i]) /\ (ws[i].s < sw.s \/ ws[i].e > sw.e)

(******************************** relations ********************************)
R_Shift(d, r) == LET v == D_VehicleOf(d, r.vehicle) ix == (IF r.hasShift THEN r.shift ELSE 0) + 1 IN
                 IF D_HasVehicle(d, r.vehicle) /\ ix \in 1..Len(v.shifts) THEN <<v.shifts[ix]>> ELSE <<>>
R_PlainJobs(r) == SelectSeq(r.jobs, LAMBDA id : id \notin V_Reserved)
AnyRel(d, P(_)) == d.hasRelations /\ \E i \in 1..Len(d.relations) : P(d.relations[i])
J_MultiPlaceOrWindow(j) == \E k \in 1..Len(j.tasks) : Len(j.tasks[k].places) > 1
                              \/ \E p \in 1..Len(j.tasks[k].places) : j.tasks[k].places[p].hasTimes /\ Len(j.tasks[k].places[p].ws) > 1

(******************************** objectives *******************************)
O_Top(d) == [i \in 1..Len(d.objectives) |-> d.objectives[i].type]
O_Flat(d) == V_Flat([i \in 1..Len(d.objectives) |-> IF d.objectives[i].type = "multi-objective" THEN d.objectives[i].inner
                                                      ELSE <<d.objectives[i].type>>])
O_CountIn(s, S) == Cardinality({ i \in 1..Len(s) : s[i] \in S })

(********************************* locations *******************************)
D_Locs(d) == { p.loc : p \in UNION { V_Range(J_Places(d.jobs[i])) : i \in 1..Len(d.jobs) } }
             \cup UNION { { v.shifts[s].loc : s \in 1..Len(v.shifts) } : v \in V_Range(d.vehicles) }
D_HasIdx(d) == \E l \in D_Locs(d) : l.k = "i"
D_HasGeo(d) == \E l \in D_Locs(d) : l.k = "g"
D_MaxIdx(d) == Max({ l.v : l \in { x \in D_Locs(d) : x.k = "i" } } \cup {0})
D_MatrixSize(d) == d.matrices[1].size

(***************************** the rules: Must *****************************)
Must(c, d) ==
  CASE c = "E1100" -> V_HasDup(D_JobIds(d))
    [] c = "E1101" -> AnyTask(d, LAMBDA t : (t.kind \in {"pickup", "delivery", "replacement"} /\ ~t.hasDemand) \/ (t.kind = "service" /\ t.hasDemand))
    [] c = "E1102" -> AnyJob(d, LAMBDA j : J_Tasks(j, "pickup") # <<>> /\ J_Tasks(j, "delivery") # <<>>
                                         /\ \E dim \in 1..2 : J_DemandSum(j, "pickup", dim) # J_DemandSum(j, "delivery", dim))
    [] c = "E1103" -> AnyPlace(d, LAMBDA p : p.hasTimes /\ WS_Must(p.ws, TRUE))
    [] c = "E1104" -> AnyJob(d, LAMBDA j : j.id \in V_Reserved)
    [] c = "E1105" -> AnyJob(d, LAMBDA j : j.tasks = <<>>)
    [] c = "E1106" -> AnyPlace(d, LAMBDA p : p.dur = "neg")
    [] c = "E1107" -> AnyTask(d, LAMBDA t : t.hasDemand /\ \E i \in 1..Len(t.demand) : t.demand[i] < 0)
    [] c = "E1200" -> AnyRel(d, LAMBDA r : \E id \in V_Range(R_PlainJobs(r)) : ~D_HasJob(d, id))
    [] c = "E1201" -> AnyRel(d, LAMBDA r : ~D_HasVehicle(d, r.vehicle))
    [] c = "E1202" -> AnyRel(d, LAMBDA r : R_PlainJobs(r) = <<>>)
    [] c = "E1203" -> AnyRel(d, LAMBDA r : r.type \in {"strict", "sequence"} /\ \E id \in V_Range(R_PlainJobs(r)) : D_HasJob(d, id) /\ J_MultiPlaceOrWindow(D_Job(d, id)))
    [] c = "E1204" -> d.hasRelations /\ \E i, k \in 1..Len(d.relations) : d.relations[i].vehicle # d.relations[k].vehicle
                                          /\ V_Range(R_PlainJobs(d.relations[i])) \cap V_Range(R_PlainJobs(d.relations[k])) # {}
    [] c = "E1205" -> AnyRel(d, LAMBDA r : r.hasShift /\ D_HasVehicle(d, r.vehicle) /\ r.shift >= Len(D_VehicleOf(d, r.vehicle).shifts))
    [] c = "E1206" -> AnyRel(d, LAMBDA r : R_Shift(d, r) # <<>> /\ LET s == R_Shift(d, r)[1] IN
                                         \/ "break" \in V_Range(r.jobs) /\ ~s.hasBreaks
                                         \/ "reload" \in V_Range(r.jobs) /\ ~s.hasReloads
                                         \/ "arrival" \in V_Range(r.jobs) /\ ~s.hasEnd)
    [] c = "E1207" -> AnyRel(d, LAMBDA r : \E id \in V_Range(R_PlainJobs(r)) : D_HasJob(d, id) /\ ~V_HasDup(D_JobIds(d))
                                                                              /\ V_Count(r.jobs, id) < Len(D_Job(d, id).tasks))
    [] c = "E1300" -> V_HasDup([i \in 1..Len(d.vehicles) |-> d.vehicles[i].typeId])
    [] c = "E1301" -> V_HasDup(D_VehicleIds(d))
    [] c = "E1302" -> AnyShift(d, LAMBDA s : s.earliest < 0 \/ (s.hasEnd /\ (s.endLatest < 0 \/ s.endLatest < s.earliest)))
    [] c = "E1303" -> AnyShift(d, LAMBDA s : s.hasBreaks /\ (WS_Must(S_BreakWindowsCertain(s), FALSE) \/ Outside(S_BreakWindowsCertain(s), S_Window(s))))
    [] c = "E1304" -> AnyShift(d, LAMBDA s : s.hasReloads /\ (WS_Must(S_ReloadWindows(s), FALSE) \/ Outside(S_ReloadWindows(s), S_Window(s))))
    [] c = "E1306" -> AnyVehicle(d, LAMBDA v : v.costDist = 0 /\ v.costTime = 0)
    [] c = "E1307" -> AnyShift(d, LAMBDA s : s.hasBreaks /\ (\E i \in 1..Len(s.breaks) : s.breaks[i].v \in {"opt-off", "req-off"})
                                           /\ (~s.hasLatest \/ s.latest # s.earliest))
    [] c = "E1308" -> \/ d.hasResources /\ V_HasDup(d.resources)
                      \/ AnyShift(d, LAMBDA s : s.hasReloads /\ \E i \in 1..Len(s.reloads) :
                                     s.reloads[i].res # "" /\ (~d.hasResources \/ s.reloads[i].res \notin V_Range(d.resources)))
    [] c = "E1500" -> V_HasDup(d.profiles)
    [] c = "E1501" -> d.profiles = <<>>
    [] c = "E1502" -> D_HasIdx(d) /\ D_HasGeo(d)
    [] c = "E1503" -> D_HasIdx(d) /\ d.matrices = <<>>
    [] c = "E1504" -> d.matrices # <<>> /\ ~(D_HasIdx(d) /\ D_HasGeo(d))
                      /\ (IF D_HasIdx(d) THEN D_MaxIdx(d) > D_MatrixSize(d) ELSE Cardinality(D_Locs(d)) > D_MatrixSize(d))
    [] c = "E1505" -> AnyVehicle(d, LAMBDA v : v.profile \notin V_Range(d.profiles))
    [] c = "E1600" -> d.hasObjectives /\ d.objectives = <<>>
    [] c = "E1601" -> d.hasObjectives /\ V_HasDup(SelectSeq(O_Top(d), LAMBDA t : t # "multi-objective"))
    [] c = "E1602" -> d.hasObjectives /\ d.objectives # <<>> /\ O_CountIn(O_Flat(d), V_CostTypes) = 0
    [] c = "E1603" -> d.hasObjectives /\ "maximize-value" \in V_Range(O_Top(d)) /\ ~AnyJob(d, LAMBDA j : j.hasValue /\ j.value # 0)
    [] c = "E1604" -> d.hasObjectives /\ "tour-order" \in V_Range(O_Top(d)) /\ ~AnyTask(d, LAMBDA t : t.hasOrder /\ t.order # 0)
    [] c = "E1605" -> d.hasObjectives /\ (AnyJob(d, LAMBDA j : j.hasValue /\ j.value < 1) \/ AnyTask(d, LAMBDA t : t.hasOrder /\ t.order < 1))
    [] c = "E1606" -> d.hasObjectives /\ O_CountIn(O_Top(d), V_CostTypes) > 1
    [] c = "E1607" -> d.hasObjectives /\ d.objectives # <<>> /\ "maximize-value" \notin V_Range(O_Flat(d)) /\ AnyJob(d, LAMBDA j : j.hasValue /\ j.value > 0)
    [] OTHER -> FALSE

(****************** May: everything the text can be read to forbid **********)
May(c, d) == Must(c, d) \/
  CASE c = "E1103" -> AnyPlace(d, LAMBDA p : p.hasTimes /\ WS_May(p.ws, TRUE))
    [] c = "E1106" -> AnyPlace(d, LAMBDA p : p.dur = "negzero")
    [] c = "E1205" -> AnyRel(d, LAMBDA r : D_HasVehicle(d, r.vehicle) /\ R_Shift(d, r) = <<>>)
    [] c = "E1206" -> AnyRel(d, LAMBDA r : R_Shift(d, r) # <<>> /\ LET s == R_Shift(d, r)[1] IN
                                         \/ "break" \in V_Range(r.jobs) /\ (s.hasBreaks => s.breaks = <<>>)
                                         \/ "reload" \in V_Range(r.jobs) /\ (s.hasReloads => s.reloads = <<>>)
                                         \/ "arrival" \in V_Range(r.jobs) /\ ~s.hasEnd)
    [] c = "E1207" -> AnyRel(d, LAMBDA r : \E id \in V_Range(R_PlainJobs(r)) : D_HasJob(d, id) /\ \E i \in 1..Len(d.jobs) : d.jobs[i].id = id /\ V_Count(r.jobs, id) # Len(d.jobs[i].tasks))
    [] c = "E1302" -> \/ AnyShift(d, LAMBDA s : s.hasEnd /\ s.endLatest = s.earliest)
                      \/ AnyVehicle(d, LAMBDA v : \E a, b \in 1..Len(v.shifts) : a # b /\ W_Touch(S_Window(v.shifts[a]), S_Window(v.shifts[b])))
                      \/ AnyVehicle(d, LAMBDA v : \E a, b \in 1..Len(v.shifts) : a # b /\ ~v.shifts[a].hasEnd /\ W_Fine(S_Window(v.shifts[b])))
    [] c = "E1303" -> AnyShift(d, LAMBDA s : s.hasBreaks /\ (WS_May(S_BreakWindows(s), TRUE) \/ NotInside(S_BreakWindows(s), S_Window(s)) \/ ~W_Fine(S_Window(s))))
    [] c = "E1304" -> AnyShift(d, LAMBDA s : s.hasReloads /\ (WS_May(S_ReloadWindows(s), FALSE) \/ NotInside(S_ReloadWindows(s), S_Window(s)) \/ ~W_Fine(S_Window(s))))
    [] c = "E1504" -> d.matrices # <<>> /\ (IF D_HasIdx(d) THEN D_MaxIdx(d) + 1 # D_MatrixSize(d) \/ Cardinality(D_Locs(d)) # D_MatrixSize(d)
                                             ELSE Cardinality(D_Locs(d)) # D_MatrixSize(d))
    [] c = "E1601" -> d.hasObjectives /\ V_HasDup(O_Flat(d))
    [] c = "E1602" -> d.hasObjectives /\ O_CountIn(O_Top(d), V_CostTypes) = 0            \* incl. the empty list
    [] c = "E1603" -> d.hasObjectives /\ "maximize-value" \in V_Range(O_Flat(d)) /\ ~AnyJob(d, LAMBDA j : j.hasValue /\ j.value > 0)
    [] c = "E1604" -> d.hasObjectives /\ "tour-order" \in V_Range(O_Flat(d)) /\ ~AnyTask(d, LAMBDA t : t.hasOrder /\ t.order > 0)
    [] c = "E1605" -> AnyJob(d, LAMBDA j : j.hasValue /\ j.value < 1) \/ AnyTask(d, LAMBDA t : t.hasOrder /\ t.order < 1)
    [] c = "E1606" -> d.hasObjectives /\ O_CountIn(O_Flat(d), V_CostTypes) > 1
    [] c = "E1607" -> d.hasObjectives /\ "maximize-value" \notin V_Range(O_Top(d)) /\ AnyJob(d, LAMBDA j : j.hasValue)
    [] OTHER -> FALSE
MustSet(d) == { c \in Codes : Must(c, d) }
MaySet(d) == { c \in Codes : May(c, d) }
=============================================================================
