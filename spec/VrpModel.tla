------------------------------ MODULE VrpModel ------------------------------
(***************************************************************************)
(* Abstract model of a pragmatic problem P and a returned solution S, and  *)
(* the definitions that decide C01 (Feasible), C02 (Partition) and C03     *)
(* (Stats).  A record r is the integer-only projection described in        *)
(* DESIGN.md Appendix C; only mechanical lookups were done by the          *)
(* projection, every matching decision (which place / window / break /     *)
(* reload explains an activity) is existential here.                       *)
(*                                                                         *)
(* Every operator takes the record explicitly so that the module can be    *)
(* instantiated by the oracle spec (one record per state), by the checker  *)
(* spec (C12 mutants) and by the solver spec (C07).                        *)
(***************************************************************************)
EXTENDS Naturals, Integers, Sequences, SequencesExt, FiniteSets, FiniteSetsExt, Functions, TLC

V_Max(a, b) == IF a > b THEN a ELSE b
V_Min(a, b) == IF a < b THEN a ELSE b
V_Range(s) == { s[i] : i \in 1..Len(s) }
V_Sum(s) == FoldLeft(LAMBDA a, b : a + b, 0, s)
V_Idx(s) == [i \in 1..Len(s) |-> i]
V_JobKinds == {"pickup", "delivery", "replacement", "service"}
V_Terminal == {"departure", "arrival"}

(***************************** structure **********************************)
V_Veh(r, t) == r.vehicles[t.vix]
V_Shift(r, t) == V_Veh(r, t).shifts[t.shift]
V_Flat(t) == t.flat                        \* all activities in visiting order, each with its stop index
\* customer-job activities that name a plan job (foreign ids are judged by NoForeignIds only; every other
\* definition stays total on malformed records)
V_JobActs(t) == SelectSeq(t.flat, LAMBDA a : a.type \in V_JobKinds /\ a.jix > 0)
V_AnyJobActs(t) == SelectSeq(t.flat, LAMBDA a : a.type \in V_JobKinds)
V_Inner(t) == SelectSeq(t.flat, LAMBDA a : a.type \notin V_Terminal)
V_Dur(r, t, a, b) == r.dur[V_Veh(r, t).profile][a][b] * V_Veh(r, t).scale
V_Dist(r, t, a, b) == r.dist[V_Veh(r, t).profile][a][b]
V_Raw(r, t, a, b) == r.dur[V_Veh(r, t).profile][a][b]

(************************** C02: exact partition **************************)
V_NTasks(j, kind) == Cardinality({ i \in 1..Len(j.tasks) : j.tasks[i].kind = kind })
V_Pos(t, jid, kind) == { p \in 1..Len(t.flat) : t.flat[p].job = jid /\ t.flat[p].type = kind }
V_ToursOf(r, jid) == { k \in 1..Len(r.tours) : \E p \in 1..Len(r.tours[k].flat) :
                          r.tours[k].flat[p].job = jid /\ r.tours[k].flat[p].type \in V_JobKinds }
V_UnCount(r, jid) == Cardinality({ i \in 1..Len(r.unassigned) : r.unassigned[i].job = jid })

\* "each job of the plan appears either completely in exactly one tour - all of its tasks exactly once,
\*  pickups before deliveries, on one vehicle shift - or exactly once in the unassigned list with >= 1 reason"
V_JobOk(r, j) ==
  LET ts == V_ToursOf(r, j.id) IN
  \/ /\ ts = {}
     /\ V_UnCount(r, j.id) = 1
     /\ \A i \in 1..Len(r.unassigned) : r.unassigned[i].job = j.id => r.unassigned[i].nreasons >= 1
  \/ /\ Cardinality(ts) = 1
     /\ V_UnCount(r, j.id) = 0
     /\ LET t == r.tours[CHOOSE k \in ts : TRUE] IN
        /\ \A kind \in V_JobKinds : Cardinality(V_Pos(t, j.id, kind)) = V_NTasks(j, kind)
        /\ \A p \in V_Pos(t, j.id, "pickup"), q \in V_Pos(t, j.id, "delivery") : p < q
PartitionJobs(r) == \A i \in 1..Len(r.jobs) : V_JobOk(r, r.jobs[i])

\* "no other job id appears"
NoForeignIds(r) ==
  /\ \A k \in 1..Len(r.tours) : \A p \in 1..Len(r.tours[k].flat) :
        LET a == r.tours[k].flat[p] IN
        \/ a.type \in V_JobKinds /\ a.jix > 0
        \/ a.type \in {"departure", "arrival", "break", "reload", "recharge"} /\ a.job = a.type
  /\ \A i \in 1..Len(r.unassigned) : r.unassigned[i].jix > 0

\* "every tour names an existing vehicle and shift"
TourNamesVehicleShift(r) == \A k \in 1..Len(r.tours) : LET t == r.tours[k] IN
       /\ t.vix > 0
       /\ t.type = V_Veh(r, t).type
       /\ t.shift \in 1..Len(V_Veh(r, t).shifts)
\* "... and serves at least one job"
TourServesJob(r) == \A k \in 1..Len(r.tours) : Len(V_AnyJobActs(r.tours[k])) >= 1
\* depot ends in place: exactly one departure (first) and at most one arrival (last)
TourTerminals(r) == \A k \in 1..Len(r.tours) : LET t == r.tours[k] IN
       /\ t.flat[1].type = "departure"
       /\ \A p \in 2..Len(t.flat) : t.flat[p].type # "departure"
       /\ \A p \in 1..(Len(t.flat) - 1) : t.flat[p].type # "arrival"
\* "no vehicle shift drives two tours"
TourUniqueVehicleShift(r) ==
  \A k1, k2 \in 1..Len(r.tours) : k1 # k2 => <<r.tours[k1].vehicle, r.tours[k1].shift>> # <<r.tours[k2].vehicle, r.tours[k2].shift>>
ToursWellFormed(r) == TourNamesVehicleShift(r) /\ TourServesJob(r) /\ TourTerminals(r) /\ TourUniqueVehicleShift(r)

(******************* C01/C03: replay of the schedule **********************)
\* candidate places of an activity.  Job tasks of the same kind; reloads of the very shift; breaks of the very
\* shift (a break without location takes the location it is taken at; an offset break is relative to departure).
V_Cands(r, t, act) ==
  IF act.type \in V_JobKinds THEN
     IF act.jix = 0 THEN {} ELSE
     LET j == r.jobs[act.jix] IN
     UNION { V_Range(j.tasks[i].places) : i \in { i \in 1..Len(j.tasks) : j.tasks[i].kind = act.type } }
  ELSE IF act.type = "reload" THEN
     { [loc |-> x.loc, dur |-> x.dur, tag |-> x.tag, tws |-> x.tws] : x \in V_Range(V_Shift(r, t).reloads) }
  ELSE IF act.type = "recharge" THEN
     { [loc |-> x.loc, dur |-> x.dur, tag |-> x.tag, tws |-> x.tws] : x \in V_Range(V_Shift(r, t).recharge.stations) }
  ELSE IF act.type = "break" THEN
     UNION { { [loc |-> IF p.loc = 0 THEN act.loc ELSE p.loc, dur |-> p.dur, tag |-> p.tag,
                tws |-> IF b.isOffset THEN << <<t.flat[1].end + b.tws[1][1], t.flat[1].end + b.tws[1][2]>> >> ELSE b.tws]
               : p \in V_Range(b.places) } : b \in V_Range(V_Shift(r, t).breaks) }
  ELSE {}

\* place p explains activity act reached at time cur: location, service start inside one window of the place
\* (arrival not after the window's end; service starts at max(arrival, window start)), duration.
\* "the place tag reported with an activity is the tag of the place (location, duration, time window) actually used"
V_ExplainsNoTag(p, act, cur) ==
  /\ p.loc = act.loc
  /\ \/ (p.tws = <<>> /\ act.start = cur)
     \/ \E w \in V_Range(p.tws) : cur <= w[2] /\ act.start = V_Max(cur, w[1])
  /\ act.end = act.start + p.dur
V_Explains(p, act, cur) == V_ExplainsNoTag(p, act, cur) /\ p.tag = act.tag

\* the moment the vehicle leaves its start: end of the departure activity (the first stop may also serve jobs)
V_DepTime(t) == t.flat[1].end
\* walk the stops: acc.t = time of leaving the previous stop, acc.loc its location
V_StopStep(r, t, acc, k) ==
  LET s == t.stops[k]
      arr == IF k = 1 THEN V_DepTime(t) ELSE acc.t + V_Dur(r, t, acc.loc, s.loc)
      walk == FoldLeft(LAMBDA c, i :
                 LET a == s.acts[i] IN
                 IF a.type \in V_Terminal THEN c
                 ELSE [cur |-> a.end,
                       okPlace |-> c.okPlace /\ (\E p \in V_Cands(r, t, a) : V_ExplainsNoTag(p, a, c.cur)),
                       okTag |-> c.okTag /\ ((\E p \in V_Cands(r, t, a) : V_ExplainsNoTag(p, a, c.cur)) =>
                                             (\E p \in V_Cands(r, t, a) : V_Explains(p, a, c.cur))),
                       okTagU |-> c.okTagU /\ ((Cardinality({p \in V_Cands(r, t, a) : p.loc = a.loc}) = 1
                                                 /\ \E p \in V_Cands(r, t, a) : V_ExplainsNoTag(p, a, c.cur)) =>
                                             (\E p \in V_Cands(r, t, a) : V_Explains(p, a, c.cur))),
                       okLoc |-> c.okLoc /\ a.loc = s.loc],
               [cur |-> arr, okPlace |-> TRUE, okTag |-> TRUE, okTagU |-> TRUE, okLoc |-> TRUE], V_Idx(s.acts))
  IN [t |-> walk.cur, loc |-> s.loc,
      okArr |-> acc.okArr /\ (k = 1 \/ s.arr = arr),
      okDep |-> acc.okDep /\ s.dep = walk.cur,
      okPlace |-> acc.okPlace /\ walk.okPlace,
      okTag |-> acc.okTag /\ walk.okTag,
      okTagU |-> acc.okTagU /\ walk.okTagU,
      okLoc |-> acc.okLoc /\ walk.okLoc,
      okReach |-> acc.okReach /\ (k = 1 \/ V_Raw(r, t, acc.loc, s.loc) >= 0)]
V_Walk(r, t) == FoldLeft(LAMBDA acc, k : V_StopStep(r, t, acc, k),
                         [t |-> 0, loc |-> 0, okArr |-> TRUE, okDep |-> TRUE, okPlace |-> TRUE, okTag |-> TRUE, okTagU |-> TRUE,
                          okLoc |-> TRUE, okReach |-> TRUE], V_Idx(t.stops))

\* C03 "arrival and departure times ... equal the values recomputed from the routing data and the visiting order"
ScheduleArrivals(r) == \A k \in 1..Len(r.tours) : V_Walk(r, r.tours[k]).okArr
ScheduleDepartures(r) == \A k \in 1..Len(r.tours) : V_Walk(r, r.tours[k]).okDep
\* C01 "job/break time windows" + C02 "every break, reload ... corresponds to one defined for that very vehicle shift"
PlacesAndWindows(r) == \A k \in 1..Len(r.tours) : V_Walk(r, r.tours[k]).okPlace
\* C03 "the place tag reported with an activity is the tag of the place that was actually used"
PlaceTags(r) == \A k \in 1..Len(r.tours) : V_Walk(r, r.tours[k]).okTag
\* the same, restricted to activities whose task has a single place at the visited location
PlaceTagsSinglePlaceAtLocation(r) == \A k \in 1..Len(r.tours) : V_Walk(r, r.tours[k]).okTagU
StopLocations(r) == \A k \in 1..Len(r.tours) : V_Walk(r, r.tours[k]).okLoc
\* C01 "reachability"
Reach(r) == \A k \in 1..Len(r.tours) : V_Walk(r, r.tours[k]).okReach

\* C01 "the vehicle shift window"
ShiftStart(r) == \A k \in 1..Len(r.tours) :
  LET t == r.tours[k] sh == V_Shift(r, t) first == t.stops[1] IN
  first.loc = sh.sloc
DepartureNotBeforeEarliest(r) == \A k \in 1..Len(r.tours) : V_DepTime(r.tours[k]) >= V_Shift(r, r.tours[k]).earliest
DepartureNotAfterLatest(r) == \A k \in 1..Len(r.tours) :
  LET sh == V_Shift(r, r.tours[k]) IN sh.latest = -1 \/ V_DepTime(r.tours[k]) <= sh.latest
ShiftEnd(r) == \A k \in 1..Len(r.tours) :
  LET t == r.tours[k] sh == V_Shift(r, t) last == t.stops[Len(t.stops)] IN
  IF sh.hasEnd
  THEN last.loc = sh.eloc /\ last.arr <= sh.elatest /\ last.acts[Len(last.acts)].type = "arrival"
  ELSE t.flat[Len(t.flat)].type # "arrival"
Shift(r) == ShiftStart(r) /\ DepartureNotBeforeEarliest(r) /\ DepartureNotAfterLatest(r) /\ ShiftEnd(r)

(************************* C01/C03: load **********************************)
V_Zero(d) == [i \in 1..d |-> 0]
V_Pad(v, d) == [i \in 1..d |-> IF i <= Len(v) THEN v[i] ELSE 0]
V_Add(a, b) == [i \in 1..Len(a) |-> a[i] + b[i]]
V_Sub(a, b) == [i \in 1..Len(a) |-> a[i] - b[i]]
V_Fits(a, c) == \A i \in 1..Len(a) : a[i] >= 0 /\ a[i] <= c[i]
V_Dim(r) == r.ndims
\* the task an activity serves: same kind and one of its places at that location with that tag (identity of the
\* task only matters through its demand, so any matching task with the same demand is as good)
V_TaskDemands(r, act) ==
  LET j == r.jobs[act.jix] IN
  { V_Pad(j.tasks[i].demand, V_Dim(r)) : i \in { i \in 1..Len(j.tasks) :
        j.tasks[i].kind = act.type /\ (\E p \in V_Range(j.tasks[i].places) : p.loc = act.loc /\ p.tag = act.tag) } }
\* demand of an activity as <<static delivery, static pickup, dynamic change>>; a set (normally a singleton)
V_Demands(r, act) ==
  LET z == V_Zero(V_Dim(r)) IN
  IF act.type \notin V_JobKinds \/ act.jix = 0 THEN { <<z, z, z>> }
  ELSE IF act.type = "service" THEN { <<z, z, z>> }
  ELSE LET j == r.jobs[act.jix] IN
       { IF act.type = "replacement" THEN <<dem, dem, z>>
         ELSE IF j.dyn THEN (IF act.type = "pickup" THEN <<z, z, dem>> ELSE <<z, z, V_Sub(z, dem)>>)
         ELSE IF act.type = "delivery" THEN <<dem, z, z>> ELSE <<z, dem, z>> : dem \in V_TaskDemands(r, act) }
\* Ambiguity (two tasks of one kind with different demand reachable at one location and tag) makes the record
\* undecidable for load; the generator gives every place of a multi job its own tag, so this is only a guard.
V_LoadDecidable(r, t) == \A p \in 1..Len(t.flat) : Cardinality(V_Demands(r, t.flat[p])) = 1
V_Demand(r, act) == CHOOSE d \in V_Demands(r, act) : TRUE

V_LoadWalk(r, t) ==
  LET acts == t.flat n == Len(acts) d == V_Dim(r) z == V_Zero(d) cap == V_Pad(V_Veh(r, t).cap, d)
      isReload(i) == acts[i].type = "reload"
      RECURSIVE delivAhead(_)
      delivAhead(i) == IF i > n \/ isReload(i) THEN z ELSE V_Add(V_Demand(r, acts[i])[1], delivAhead(i + 1))
      step(acc, i) ==
        LET a == acts[i] dm == V_Demand(r, a) IN
        IF isReload(i) \/ a.type = "arrival"
        THEN \* static pickups of the finished interval leave the vehicle, deliveries of the next one are loaded
             LET base == V_Sub(acc.load, acc.pick)
                 nl == IF isReload(i) THEN V_Add(base, delivAhead(i + 1)) ELSE base IN
             [load |-> nl, pick |-> z, ok |-> acc.ok /\ V_Fits(nl, cap),
              stopLoad |-> [acc.stopLoad EXCEPT ![a.stop] = nl]]
        ELSE LET nl == V_Add(V_Add(V_Sub(acc.load, dm[1]), dm[2]), dm[3]) IN
             [load |-> nl, pick |-> V_Add(acc.pick, dm[2]), ok |-> acc.ok /\ V_Fits(nl, cap),
              stopLoad |-> [acc.stopLoad EXCEPT ![a.stop] = nl]]
      init == LET l0 == delivAhead(1) IN
              [load |-> l0, pick |-> z, ok |-> V_Fits(l0, cap), stopLoad |-> [k \in 1..Len(t.stops) |-> l0]]
  IN FoldLeft(step, init, V_Idx(acts))

\* C01 "vehicle load in every capacity dimension at every point of the tour (per reload interval)"
Capacity(r) == \A k \in 1..Len(r.tours) : V_LoadDecidable(r, r.tours[k]) => V_LoadWalk(r, r.tours[k]).ok
\* C03 "per-stop load"
ReportedLoad(r) == \A k \in 1..Len(r.tours) : LET t == r.tours[k] IN
   V_LoadDecidable(r, t) =>
     LET w == V_LoadWalk(r, t) IN \A s \in 1..Len(t.stops) : V_Pad(t.stops[s].load, V_Dim(r)) = w.stopLoad[s]

\* C02 "every break, reload or recharge stop corresponds to a distinct one defined for that very vehicle shift"
V_Injective(n, m, ok(_, _)) ==
   n <= m /\ (n = 0 \/ \E f \in [1..n -> 1..m] : (\A a, b \in 1..n : a # b => f[a] # f[b]) /\ (\A a \in 1..n : ok(a, f[a])))
ConditionalDistinct(r) == \A k \in 1..Len(r.tours) :
   LET t == r.tours[k] sh == V_Shift(r, t)
       brs == SelectSeq(t.flat, LAMBDA a : a.type = "break")
       rls == SelectSeq(t.flat, LAMBDA a : a.type = "reload")
   IN /\ V_Injective(Len(brs), Len(sh.breaks),
                     LAMBDA a, b : \E p \in V_Range(sh.breaks[b].places) :
                                      (p.loc = 0 \/ p.loc = brs[a].loc) /\ p.dur = brs[a].end - brs[a].start /\ p.tag = brs[a].tag)
      /\ V_Injective(Len(rls), Len(sh.reloads),
                     LAMBDA a, b : sh.reloads[b].loc = rls[a].loc /\ sh.reloads[b].dur = rls[a].end - rls[a].start
                                   /\ sh.reloads[b].tag = rls[a].tag)
      /\ LET rcs == SelectSeq(t.flat, LAMBDA a : a.type = "recharge") st == sh.recharge.stations IN
         \* "each [station] can be visited only once" (model.rs VehicleRecharges)
         V_Injective(Len(rcs), Len(st),
                     LAMBDA a, b : st[b].loc = rcs[a].loc /\ st[b].dur = rcs[a].end - rcs[a].start /\ st[b].tag = rcs[a].tag)

(******************* C01: skills, limits, groups, compat, order ***********)
Skills(r) == \A k \in 1..Len(r.tours) : LET t == r.tours[k] vs == V_Range(V_Veh(r, t).skills) IN
   \A p \in 1..Len(V_JobActs(t)) : LET j == r.jobs[V_JobActs(t)[p].jix] IN
      /\ V_Range(j.allOf) \subseteq vs
      /\ (j.oneOf = <<>> \/ V_Range(j.oneOf) \cap vs # {})
      /\ V_Range(j.noneOf) \cap vs = {}

V_LegDists(r, t) == [k \in 1..(Len(t.stops) - 1) |-> V_Dist(r, t, t.stops[k].loc, t.stops[k + 1].loc)]
V_LegDurs(r, t) == [k \in 1..(Len(t.stops) - 1) |-> V_Dur(r, t, t.stops[k].loc, t.stops[k + 1].loc)]
V_TourDuration(t) == t.stops[Len(t.stops)].dep - V_DepTime(t)
\* C01 "tour distance/duration/size limits"
LimitDistance(r) == \A k \in 1..Len(r.tours) : LET t == r.tours[k] v == V_Veh(r, t) IN
  v.maxDist = -1 \/ V_Sum(V_LegDists(r, t)) <= v.maxDist
LimitDuration(r) == \A k \in 1..Len(r.tours) : LET t == r.tours[k] v == V_Veh(r, t) IN
  v.maxDur = -1 \/ V_TourDuration(t) <= v.maxDur
LimitTourSize(r) == \A k \in 1..Len(r.tours) : LET t == r.tours[k] v == V_Veh(r, t) IN
  v.tourSize = -1 \/ Len(V_Inner(t)) <= v.tourSize
\* C01 "tour distance limits", recharge stations (vehicles.md: "max distance limit before recharge should happen"): the way
\* driven from the start of the tour or from a recharge stop up to the next recharge stop or the end of the tour
V_IsRechargeStop(s) == \E i \in 1..Len(s.acts) : s.acts[i].type = "recharge"
V_RechargeSpans(r, t) ==
  LET legs == V_LegDists(r, t)
      walk == FoldLeft(LAMBDA acc, k :
                 LET d == acc.cur + legs[k] IN
                 [cur |-> IF V_IsRechargeStop(t.stops[k + 1]) THEN 0 ELSE d, spans |-> Append(acc.spans, d)],
               [cur |-> 0, spans |-> <<>>], V_Idx(legs))
  IN walk.spans
RechargeDistance(r) == \A k \in 1..Len(r.tours) : LET t == r.tours[k] sh == V_Shift(r, t) IN
  sh.recharge.max = -1 \/ \A d \in V_Range(V_RechargeSpans(r, t)) : d <= sh.recharge.max
Limits(r) == LimitDistance(r) /\ LimitDuration(r) /\ LimitTourSize(r)

V_JobsOfTour(r, t) == { V_JobActs(t)[p].jix : p \in 1..Len(V_JobActs(t)) }
\* "group rules": all assigned jobs of a group are on one tour
Groups(r) == \A k1, k2 \in 1..Len(r.tours) : k1 # k2 =>
   \A a \in V_JobsOfTour(r, r.tours[k1]), b \in V_JobsOfTour(r, r.tours[k2]) :
      r.jobs[a].group = "" \/ r.jobs[a].group # r.jobs[b].group
\* "compatibility rules": at most one compatibility class per tour
Compat(r) == \A k \in 1..Len(r.tours) :
   \A a, b \in V_JobsOfTour(r, r.tours[k]) :
      r.jobs[a].compat = "" \/ r.jobs[b].compat = "" \/ r.jobs[a].compat = r.jobs[b].compat
\* "task order where it is a hard rule": ascending order values, tasks without order after all ordered ones
V_OrderOf(r, act) ==
  LET j == r.jobs[act.jix]
      os == { j.tasks[i].order : i \in { i \in 1..Len(j.tasks) : j.tasks[i].kind = act.type
                 /\ (\E p \in V_Range(j.tasks[i].places) : p.loc = act.loc /\ p.tag = act.tag) } }
  IN os
OrderHard(r) == r.hardOrder => \A k \in 1..Len(r.tours) : LET ja == V_JobActs(r.tours[k]) IN
   \A p, q \in 1..Len(ja) : p < q =>
      \* existential on the task identity: some reading of the two activities is in order
      \E op \in V_OrderOf(r, ja[p]), oq \in V_OrderOf(r, ja[q]) :
         \/ (op > 0 /\ oq > 0 /\ op <= oq)
         \/ oq = 0

(******************************* relations ********************************)
\* positions (in the inner sequence without departure/arrival) of the activities a relation names
V_RelTour(r, rel) == { k \in 1..Len(r.tours) : r.tours[k].vehicle = rel.vehicle /\ r.tours[k].shift = rel.shift }
V_RelBody(rel) == SelectSeq(rel.jobs, LAMBDA x : x.id \notin V_Terminal)
\* is seq `small` a subsequence of `big` (by id)?
RECURSIVE V_SubSeqFrom(_, _, _, _)
V_SubSeqFrom(small, i, big, j) ==
  IF i > Len(small) THEN TRUE
  ELSE IF j > Len(big) THEN FALSE
  ELSE IF small[i] = big[j] THEN V_SubSeqFrom(small, i + 1, big, j + 1)
  ELSE V_SubSeqFrom(small, i, big, j + 1)
V_Ids(s) == [i \in 1..Len(s) |-> s[i].job]
V_RelIds(rel) == [i \in 1..Len(V_RelBody(rel)) |-> V_RelBody(rel)[i].id]
\* "relation pinning (vehicle, order, contiguity, departure/arrival anchoring)"
RelationVehicle(r) == \A i \in 1..Len(r.relations) : LET rel == r.relations[i] IN
   \A x \in V_Range(V_RelBody(rel)) : x.jix > 0 =>
      \A k \in V_ToursOf(r, x.id) : k \in V_RelTour(r, rel)
RelationOrder(r) == \A i \in 1..Len(r.relations) : LET rel == r.relations[i] IN
   rel.type \in {"sequence", "strict"} =>
      \A k \in V_RelTour(r, rel) :
         LET inner == V_Ids(V_Inner(r.tours[k])) want == V_RelIds(rel) IN
         \/ rel.type = "sequence" /\ V_SubSeqFrom(want, 1, inner, 1)
         \/ rel.type = "strict" /\ \E off \in 0..(Len(inner) - Len(want)) :
               /\ \A q \in 1..Len(want) : inner[off + q] = want[q]
               /\ (rel.jobs[1].id = "departure" => off = 0)
               /\ (rel.jobs[Len(rel.jobs)].id = "arrival" => off + Len(want) = Len(inner))
\* pinned (sequence/strict) jobs are on the tour of their vehicle shift
RelationPinned(r) == \A i \in 1..Len(r.relations) : LET rel == r.relations[i] IN
   rel.type \in {"sequence", "strict"} => V_RelTour(r, rel) # {}

(*************************** C03: statistics ******************************)
StopDistances(r) == \A k \in 1..Len(r.tours) : LET t == r.tours[k] IN
   \A s \in 1..Len(t.stops) : t.stops[s].dist = V_Sum(SubSeq(V_LegDists(r, t), 1, s - 1))
V_Serving(t) == V_Sum([i \in 1..Len(t.flat) |-> LET a == t.flat[i] IN
                          IF a.type \in {"departure", "arrival", "break"} THEN 0 ELSE a.end - a.start])
V_BreakTime(t) == V_Sum([i \in 1..Len(t.flat) |-> LET a == t.flat[i] IN IF a.type = "break" THEN a.end - a.start ELSE 0])
TourStat(r) == \A k \in 1..Len(r.tours) : LET t == r.tours[k] IN
  /\ t.stat.distance = V_Sum(V_LegDists(r, t))
  /\ t.stat.duration = V_TourDuration(t)
  /\ t.stat.driving = V_Sum(V_LegDurs(r, t))
  /\ t.stat.serving = V_Serving(t)
  /\ t.stat.brk = V_BreakTime(t)
  /\ t.stat.waiting = t.stat.duration - t.stat.driving - t.stat.serving - t.stat.brk
  /\ t.stat.waiting >= 0
\* cost == fixed + distance * cd + duration * ct  (milli units; 2 milli units of float noise per tour)
V_CostU(r, t) == LET v == V_Veh(r, t) IN v.fixedU + V_Sum(V_LegDists(r, t)) * v.cdU + V_TourDuration(t) * v.ctU
TourCost(r) == \A k \in 1..Len(r.tours) : LET t == r.tours[k] d == t.stat.costU - V_CostU(r, t) IN d >= -2 /\ d <= 2
\* "the overall statistic is the sum of the tours"
OverallStat(r) ==
  LET sum(f(_)) == V_Sum([k \in 1..Len(r.tours) |-> f(r.tours[k])]) IN
  /\ r.stat.distance = sum(LAMBDA t : t.stat.distance)
  /\ r.stat.duration = sum(LAMBDA t : t.stat.duration)
  /\ r.stat.driving = sum(LAMBDA t : t.stat.driving)
  /\ r.stat.serving = sum(LAMBDA t : t.stat.serving)
  /\ r.stat.waiting = sum(LAMBDA t : t.stat.waiting)
  /\ r.stat.brk = sum(LAMBDA t : t.stat.brk)
  /\ LET d == r.stat.costU - sum(LAMBDA t : t.stat.costU) IN d >= -5 /\ d <= 5

(*************************** bundles **************************************)
Feasible(r) == /\ PlacesAndWindows(r) /\ Shift(r) /\ Capacity(r) /\ Skills(r) /\ Limits(r) /\ Groups(r)
               /\ Compat(r) /\ OrderHard(r) /\ Reach(r) /\ RelationVehicle(r) /\ RelationOrder(r) /\ RechargeDistance(r)
Partition(r) == PartitionJobs(r) /\ NoForeignIds(r) /\ ToursWellFormed(r) /\ ConditionalDistinct(r)
Stats(r) == /\ ScheduleArrivals(r) /\ ScheduleDepartures(r) /\ StopLocations(r) /\ ReportedLoad(r)
            /\ StopDistances(r) /\ TourStat(r) /\ TourCost(r) /\ OverallStat(r) /\ PlaceTags(r)
Valid(r) == Feasible(r) /\ Partition(r) /\ Stats(r)
=============================================================================
