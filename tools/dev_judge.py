#!/usr/bin/env python3
"""dev helper: project dev.out and judge with OracleVrp"""
import sys, json, collections
sys.path.insert(0, '/verif')
from vlib import common, project
cases = {c['id']: c for c in common.read_ndjson('/verif/work/dev.in')}
recs = []; skipped = collections.Counter()
for o in common.read_ndjson('/verif/work/dev.out'):
    if o['status'] != 'ok': continue
    c = cases[o['id']]
    try:
        recs.append(project.project(c['problem'], c['matrices'], o['solution'], o['id']))
    except project.Unsupported as e:
        skipped[str(e)] += 1
common.write_ndjson('/verif/work/dev.recs', recs)
res = common.tlc('OracleVrp', env={'RECS': '/verif/work/dev.recs'}, workers=1, name='dev')
print('records', len(recs), 'skipped', dict(skipped), 'states', res.distinct, 'wall %.1f' % res.wall)
c = collections.Counter(f[0] for f in res.fails)
print(dict(c))
for f in res.fails[:int(sys.argv[1]) if len(sys.argv) > 1 else 10]: print(f)
print(res.errors[:3])
