#!/usr/bin/env python3
"""dev helper: generate N cases from seed S, solve, print status summary"""
import sys, json, collections, subprocess, time
sys.path.insert(0, '/verif')
from vlib import pgen, common
s0, n = int(sys.argv[1]), int(sys.argv[2]); size = sys.argv[3] if len(sys.argv) > 3 else 'small'
cases = [pgen.make_case(s, size) for s in range(s0, s0 + n)]
common.write_ndjson('/verif/work/dev.in', cases)
t = time.time()
subprocess.run(['/verif/harness/target/debug/solve', '--in', '/verif/work/dev.in', '--out', '/verif/work/dev.out', '--jobs', '8'], stdout=subprocess.DEVNULL)
c = collections.Counter()
for l in open('/verif/work/dev.out'):
    r = json.loads(l); c[r['status']] += 1
    if r['status'] != 'ok': print(r['id'], r['status'], r.get('codes'), r.get('error', '')[:160])
print(dict(c), 'wall %.1fs' % (time.time() - t))
