#!/usr/bin/env python3
"""Regenerates MANIFEST.json from tools/manifest_data.py (single source of truth for the registered checks)."""
import json, os, sys
ROOT = os.path.dirname(os.path.dirname(os.path.abspath(__file__)))
sys.path.insert(0, ROOT)
from tools import manifest_data as d
props = [json.loads(l)['id'] for l in open(os.path.join(ROOT, 'properties.jsonl'))]
checks = []
for pid in props:
    if pid in d.CHECKS:
        c = d.CHECKS[pid]
        checks.append({
            'property_id': pid,
            'quick_cmd': './check %s --tier quick' % pid,
            'thorough_cmd': './check %s --tier thorough' % pid,
            'evidence_file': 'evidence/%s.json' % pid,
            **({'replay_cmd_template': './check %s --replay {path}' % pid} if pid in ('C01', 'C02', 'C03') else {}),
            'engine': c.get('engine', 'tlc+harness'),
            'level_claimed': {'category': c['category'], 'text': c['text'], 'design_ref': c['design_ref']},
            'level_note': c['note'],
            'technique': c['technique'],
        })
na = [{'property_id': p, 'reason': d.NOT_APPLICABLE.get(p, 'check under construction in this round (see DESIGN.md section 9); not claimed yet')}
      for p in props if p not in d.CHECKS]
m = {
    'version': 1,
    'setup_cmd': 'cd harness && cp -n /repo/Cargo.lock Cargo.lock; CARGO_NET_OFFLINE=true cargo build --offline --bins',
    'hooks': d.HOOKS,
    'engines': d.ENGINES,
    'checks': checks,
    'notes': d.NOTES,
    'not_applicable': na,
}
json.dump(m, open(os.path.join(ROOT, 'MANIFEST.json'), 'w'), indent=1)
print('checks:', [c['property_id'] for c in checks], 'not_applicable:', len(na))
