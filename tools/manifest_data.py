HOOKS = {
    'guard': 'reinterpretcat_vrp_verif',
    'enable': 'harness/.cargo/config.toml passes --cfg reinterpretcat_vrp_verif (and --check-cfg) to every crate of the harness build, including the path dependencies under /repo',
    'baseline_off_cmd': 'cd /repo && cargo nextest run --workspace --no-fail-fast --tool-config-file pb:/w/lib/nextest.toml --profile pb --test-threads 8 --offline || cargo test --workspace --no-fail-fast --offline',
    'source_commits': ['f301bba'],
    'add_only': True,
}
ENGINES = [
    {'name': 'tlc', 'path': 'spec/', 'serves_properties': [], 'kind_free_text': 'TLA+ specification (spec/*.tla) checked with TLC 1.8; oracle/trace/generator configurations'},
    {'name': 'harness', 'path': 'harness/', 'serves_properties': [], 'kind_free_text': 'Rust drivers (own cargo workspace, path deps on /repo) that run the real code and record / replay'},
]
NOTES = 'Model-based verification with an explicit TLA+ specification; see DESIGN.md. ./check <id> --tier quick|thorough; exit 0/1/2 (2 = tool error).'
NOT_APPLICABLE = {}
_ORACLE_NOTE = ('trusted: TLC evaluates spec/VrpModel.tla as written; vlib/project.py is a mechanical projection (index / id lookups, '
                'RFC3339 -> integer seconds); generated problems are valid per the documentation (integer stratum: index locations, explicit '
                'integer matrices). Not covered yet: required breaks, recharge, vicinity clustering, time-dependent matrices, coordinates.')
CHECKS = {
    'C01': dict(category='model_checking', design_ref='DESIGN.md section 6 C01', technique='TLA+ oracle (VrpModel!Feasible) on recorded solver runs, TLC',
                text='Every returned solution of ~1500 (quick) / ~19000 (thorough) seeded solver runs over generated valid problems x solver configurations '
                     '(populations, hyper-heuristics, operator sets, initial methods, termination, parallelism), plus relation problems derived from returned solutions, is judged by TLC '
                     'against the feasibility definitions of spec/VrpModel.tla (time windows, shift, capacity per reload interval, skills, limits, groups, compatibility, hard order, reachability, relations); '
                     'each run re-checks that single-field corruptions of an accepted record are rejected (binding / vacuity guard).',
                note=_ORACLE_NOTE),
    'C02': dict(category='model_checking', design_ref='DESIGN.md section 6 C02', technique='TLA+ oracle (VrpModel!Partition) on recorded solver runs + exhaustive SolutionCtx model, TLC',
                text='Same recorded runs as C01 judged against the partition definitions (every plan job exactly once in one tour or once unassigned with a reason, no foreign ids, tours name existing vehicle shifts, '
                     'serve a job, no vehicle shift twice, breaks / reloads map injectively to the ones defined for that shift).',
                note=_ORACLE_NOTE),
    'C03': dict(category='model_checking', design_ref='DESIGN.md section 6 C03', technique='TLA+ replay (VrpModel!Stats) of recorded solutions, TLC',
                text='Same recorded runs as C01: arrival / departure, per-stop load and distance, tour and overall statistics, cost and place tags are recomputed by the specification from matrices, '
                     'vehicle costs and the visiting order and demanded equal (integer stratum, cost within 2 milli units).',
                note=_ORACLE_NOTE),
    'C04': dict(category='model_checking', design_ref='DESIGN.md section 6 C04', technique='trace validation of recorded operator histories against TraceSolutionCtx.tla + exhaustive TLC check of SolutionCtx.tla',
                text='Seeded random histories (120 x 40 steps quick, 2500 x 120 thorough) over every shipped ruin (inside CompositeRuin), recreate, local operator, decompose / redistribute / infeasible / LKH / default composite; '
                     'after every operator TLC checks Inv(pre) => Inv(post): one place per job, no duplicate entries, registry sync, tour job sets, multi jobs whole and ordered, all hard constraints of VrpModel on what is assigned, parent digest unchanged. '
                     'The fine-grained container / registry / cache model SolutionCtx.tla is checked exhaustively.',
                note='trusted: harness observation through public API and hook H1; operators use the unseeded default Random, so a violation is reproduced from the recorded event, not by re-execution. '
                     'Micro-step trace validation (hook H3) is not built yet: the fine-grained model is bound to the code only at operator boundaries.'),
    'C06': dict(category='model_checking', design_ref='DESIGN.md section 6 C06', technique='TLC-enumerated cases replayed into the evaluator, judged by Insertion.tla (brute-force simulation) + exhaustive MCInsertion model',
                text='Exhaustive over finite worlds (4 fixed + seed-dependent random ones; matrices, open/closed shift, capacity, palettes with equal-ended / double / late windows, static and pickup-delivery demand): every simulation-feasible tour of <= 3 (quick) / 4 (thorough) activities x every palette job is replayed into '
                     'eval_job_insertion_in_route at every concrete position, in exhaustive Any mode and through a real recreate step; TLC decides soundness (success => simulation feasible, single and pair jobs), completeness and returned position for single-task jobs. '
                     'MCInsertion model-checks that the decision taken from the cached summaries equals brute-force simulation on every tour reachable by guarded insertions / removals.',
                note='trusted: TLC; the harness places activities directly and refreshes state through goal.accept_route_state. Constraints covered: time windows, shift end, one capacity dimension (as the statement lists); reload intervals are not in the worlds.'),
    'C07': dict(category='model_checking', design_ref='DESIGN.md section 6 C07', technique='trace validation of interrupted solver runs against Solver.tla (TLC) + VrpModel oracle on the returned solutions',
                text='For each generated problem the solver is run with a counting quota that turns true at its k-th poll (every k up to 40, then a stride, up to the number of polls of a free run), with the termination criterion firing at its j-th check, '
                     'and with the real 1 s time limit behind a 1.1 s pre-processing step. Every run must return Ok; its recorded sequence of quota polls / termination checks must be a behaviour of the control-loop model Solver.tla (whose invariants - a solution is returned, generations bounded, no generation after the guard saw the stop - are model-checked exhaustively), and the returned solution must satisfy the C01-C03 definitions of VrpModel.',
                note='trusted: TLC; runs are single threaded so that event order = call order (multi-threaded layouts are exercised by C01/C15 without trace validation); poll points are not labelled by kind (hook H2 not built), the model distinguishes them by position.'),
    'C09': dict(category='model_checking', design_ref='DESIGN.md section 6 C09', technique='laws model-checked on Order.tla (TLC, exhaustive over the domain), every pair replayed on InsertionCost / Goal and compared by JudgeOrder.tla',
                text='Order.tla defines the IEEE total order with signed zero, the padded lexicographic cost order, padded addition / subtraction and goal comparison (single layers with the both-zero rule, dominance layers). '
                     'GenOrder.tla checks the order laws and the add/sub inverse law on the model for every pair / triple of the domain and writes every pair with the model answer; the code must answer the same on all of them (so the laws transfer to the code on the domain), '
                     'and antisymmetry / reflexivity are also observed directly on the code.',
                note='trusted: TLC; domain: vectors of length <= 2 (quick) / 3 (thorough) over {-inf,-2,-1,-0,+0,1,2,+inf}, 7 goal shapes; NaN excluded (statement: finite).'),
    'C15': dict(category='model_checking', design_ref='DESIGN.md section 6 C15', technique='ParallelEval.tla (fold_reduce with pruning over every cut of every candidate sequence) model-checked with TLC; TLC-generated contexts replayed into evaluate_all under pools of 1-8 threads, judged by JudgeParallel.tla; solver runs under a grid of pool layouts judged by the VrpModel oracle',
                text='ParallelEval.tla models evaluate_all as chunked folds with the best-so-far pruning and a reducing selector; TLC checks for every candidate sequence up to 4 and every set of cuts that the result is the sequential minimum when activity-level parts are non-negative, and finds the counterexample when they can be negative. '
                     'GenParallel.tla enumerates contexts (two feasible tours + remaining jobs) over fixed and seeded integer worlds, metric and non-metric; the harness evaluates each (route, job) pair alone and calls evaluate_all in pools of 1, 2, 3, 4, 8 threads (repeated); every run must return the minimal cost vector. '
                     'Generated problems are solved under 6 pool layouts and every returned solution is judged with all invariants of C01-C03.',
                note='trusted: TLC; rayon picks the actual splits (pool size and repetitions are the only control); deterministic BestResultSelector; layout runs exclude the strata with recorded defects of C01-C03.'),
    'C16': dict(category='model_checking', design_ref='DESIGN.md section 6 C16', technique='TLC enumerates matrix sets and queries with the model answer (Routing.tla), replayed into the real transport cost providers, compared by JudgeRouting.tla',
                text='Routing.tla defines when a matrix set is consistent, which matrix a (profile, time) query selects, linear interpolation between timestamps (exact rationals), duration scaling and unscaled distance. '
                     'GenRouting.tla enumerates consistent and inconsistent sets with pairwise distinct entries and every query; the harness builds the real provider (create_matrix_transport_cost, the pragmatic named-profile path with errorCodes, the coordinate approximation) and answers every query.',
                note='trusted: TLC; integer timestamps and entries, sizes 1-3; accuracy of the haversine approximation is not claimed (symmetry and zero diagonal only).'),
    'C17': dict(category='model_checking', design_ref='DESIGN.md section 6 C17', technique='step model of DBSCAN model-checked against its contract (Dbscan.tla, TLC), terminal states and TLC-enumerated LKH / k-medoids inputs replayed into the public functions, outputs judged by the contracts of Algo.tla',
                text='Algo.tla states the contracts (permutation, same start, closed cost not above the input; disjoint clusters grown from a core point with density-reachable members, no core point unclustered; partition with nearest own medoid, per tier among siblings). '
                     'Dbscan.tla transcribes create_clusters step by step; TLC checks contract and termination for every neighbourhood relation, order and minPts on 3 (quick) / 4 (thorough) points and prints every terminal state, which the real function must reproduce. '
                     'GenAlgo.tla enumerates every symmetric cost matrix over small alphabets for 1-5 nodes plus a seeded larger stratum (6-9 nodes, ties, zero-cost duplicates, collinear), every point multiset on a small line / grid plus seeded larger sets; every call runs under a deadline (termination).',
                note='trusted: TLC; integer costs (float arithmetic exact); k <= number of points; hierarchy: nearest-medoid judged among clusters that split the same parent.'),
    'C08': dict(category='model_checking', design_ref='DESIGN.md section 6 C08', technique='Population.tla (Greedy / Elitism / Rosomaxa as one state machine) model-checked with TLC; TLC-generated operation histories replayed into the real populations, observed rankings / selections judged by JudgePopulation.tla; seeded re-solves compared under the real goal',
                text='Population.tla transcribes the three populations (best-of, stable sort + dedup keeping the earlier twin + truncate, elite fed through the not-worse-than-best filter, phase switches on the termination estimate). '
                     'TLC checks BestNoWorse, Sorted, SizeBound, RankedOffered, NoTwins, NonEmptyOnceOffered and PhaseMonotone for all histories of 4 operations and generates 14-operation histories (add, add_all with batches of 0-3, on_generation, select) for every configuration; '
                     'each is executed on the real objects through the HeuristicPopulation trait and the properties are evaluated on what was observed after every operation (the equality with the model expectation is reported as conformance). '
                     'Corollary: generated problems are solved, the written solution is read back as initial solution, solved again with each population type, and both are compared with GoalContext::total_order.',
                note='trusted: TLC; the test objective (lexicographic pairs) and custom dedup rules of the harness; corollary only on the plain stratum (no breaks / reloads / custom objectives / multiple shifts), both sides written and re-read; re-solves whose seed cannot be read back are skipped (see C11).'),
    'C10': dict(category='model_checking', design_ref='DESIGN.md section 6 C10', technique='TLC enumerates abstract documents per rule family (GenValidation.tla), instantiated as pragmatic JSON and read by the real reader; every documented rule evaluated in a Must and a May reading by JudgeValidation.tla (Validation.tla)',
                text='Validation.tla states the 38 documented rules E11xx-E16xx over an abstract document, each as Must (the text is unambiguous) and May (the text can be read that way). '
                     'GenValidation.tla enumerates, over a valid base document, all combinations of the fields of one rule family at a time (window lists up to 3 incl. reversed / overlapping / touching / zero-length / malformed windows for every task kind, demand vectors x task kinds, ids, durations incl. -0.0, '
                     'vehicle types / ids / costs / profiles, 1-3 shifts, break lists of all four variants x departure rescheduling, reloads x resources, relations x shift properties, objective lists incl. nested multi-objectives x job values / orders, location kinds x sparse indices x matrix sizes, degenerate collections). '
                     'Expected per document: no panic, Must <= reported codes <= May, accepted iff no code, a document that breaks nothing under any reading is accepted.',
                note='trusted: TLC; vlib/vinst.py is a mechanical instantiation of the abstract document. One family varies at a time; clustering, recharge, skills, limits, time-dependent matrices are not generated. Vacuity guard: every rule has a certain witness and a non-witness in the domain.'),
    'C12': dict(category='model_checking', design_ref='DESIGN.md section 6 C12', technique='TLC enumerates single-breach mutants of valid recorded solutions (Checker.tla over VrpModel), replayed into the bundled checker',
                text='Positive: every solver-made solution that the specification (VrpModel!Valid) accepts must be accepted by CheckerContext::check. Negative: for a sample of those records TLC enumerates every (breach class, site) mutation '
                     '(misreported load, unknown / duplicated / dropped / split job, assigned and unassigned, arrival / distance / statistic mismatch, capacity below load, distance / duration / tour-size limit, broken relation, misplaced break), keeps those whose mutated pair the specification finds invalid, '
                     'and the driver applies each descriptor to the real documents: the checker must answer Err.',
                note='trusted: TLC; the mechanical application of breach descriptors in checks/checker.py; explicit matrices always supplied. Magnitudes exceed the checker tolerances (+-1).'),
    'C14': dict(category='model_checking', design_ref='DESIGN.md section 6 C14', technique='TLC-generated operation histories (Containers.tla reference model) replayed into Tour / RegistryContext, observations compared by JudgeContainers.tla',
                text='The reference model of a tour (activity sequence between the depot ends, job set, counts, leg enumeration incl. the open-end leg) and of the vehicle registry (available set, one offer per group, use / free results, deep copy, deep slice), '
                     'each with an original and a deep copy, is model-checked exhaustively (BFS to depth 5 under a VIEW) and used to generate 14-step histories in simulation mode (closed and open tours); '
                     'every step is executed on the real objects and the full observation of both instances must equal the model (results incl. contract panics, independence of copies).',
                note='trusted: TLC; harness observation code (pointer identity for legs). insert_at indices stay inside the contract; Registry is reached through RegistryContext (get_route / use_route / free_route).'),
    'C20': dict(category='model_checking', design_ref='DESIGN.md section 6 C20', technique='TLC-enumerated cases replayed into the evaluator, quotes and realised fitness change judged by Insertion.tla',
                text='Same exhaustive enumeration as C06 under two goals ([unassigned, tours, distance] and [value, unassigned, cost]): the quoted cost vector of the chosen insertion is compared layer by layer with the model value of the objective change and with the fitness change the code measures after really inserting; cost layer only where the model finds no waiting before and after.',
                note='trusted: TLC; integer worlds (all quotes are integers, compared exactly at 1/1000); time-independent routing; no conditional jobs (the ignored-jobs special case of the unassigned objective is outside the domain, see DESIGN).'),
    'C05': dict(category='model_checking', design_ref='DESIGN.md section 6 C05', technique='trace validation (cache digests before/after recomputation) + TLA+ replay of cached schedules + SolutionCtx cache protocol model, TLC',
                text='In the same operator histories every handed-over state is compared with its recomputation from bare tours: digest of all cached route / solution state values (hook H1), fitness and total order, '
                     'and the cached schedules / loads / totals are replayed by the specification. The cache protocol (stale bit, who refreshes what) is model-checked in SolutionCtx.tla.',
                note='trusted: hook H1 renders the cached values of known plain types (others are counted as opaque); recomputation = clear + accept_route_state + accept_solution_state on a deep copy. '
                     '"after every single insertion" is decided at model level only (AggFreshAfterInsertion witness); the insertion observer hook H2 is not built yet.'),
}
