HOOKS = {
    'guard': 'reinterpretcat_vrp_verif',
    'enable': 'harness/.cargo/config.toml passes --cfg reinterpretcat_vrp_verif (and --check-cfg) to every crate of the harness build, including the path dependencies under /repo',
    'baseline_off_cmd': 'cd /repo && cargo nextest run --workspace --no-fail-fast --tool-config-file pb:/w/lib/nextest.toml --profile pb --test-threads 8 --offline || cargo test --workspace --no-fail-fast --offline',
    'source_commits': [],
    'add_only': True,
}
ENGINES = [
    {'name': 'tlc', 'path': 'spec/', 'serves_properties': [], 'kind_free_text': 'TLA+ specification (spec/*.tla) checked with TLC 1.8; oracle/trace/generator configurations'},
    {'name': 'harness', 'path': 'harness/', 'serves_properties': [], 'kind_free_text': 'Rust drivers (own cargo workspace, path deps on /repo) that run the real code and record / replay'},
]
NOTES = 'Model-based verification with an explicit TLA+ specification; see DESIGN.md. ./check <id> --tier quick|thorough; exit 0/1/2 (2 = tool error).'
NOT_APPLICABLE = {}
CHECKS = {}
