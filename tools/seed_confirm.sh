#!/bin/bash
# usage: tools/seed_confirm.sh <worktree> ; confirms in the agent's scratch worktree: suite passes with the change, demo fails with it and passes without
# (the change is taken out and put back with `git apply -R` / `git apply` of _seed/patch.diff: `git stash` is shared by all worktrees of a repository)
wt=$1
cd $wt || exit 2
export CARGO_TARGET_DIR=$wt/target
git checkout -q -- . 2>/dev/null; git apply _seed/patch.diff || { echo "patch does not apply on a clean worktree"; exit 2; }
echo "== suite with change"; timeout 900 cargo nextest run --workspace --no-fail-fast --offline --test-threads 8 2>&1 | grep -E "Summary|FAIL|SIGKILL|TIMEOUT" | head -5
echo "== demo with change (expect non-zero)"; bash _seed/demo/run.sh > _seed/confirm_with.log 2>&1; echo "rc=$?"
git apply -R _seed/patch.diff
echo "== demo without change (expect 0)"; bash _seed/demo/run.sh > _seed/confirm_without.log 2>&1; echo "rc=$?"
git apply _seed/patch.diff
git status --short | head -5
