#!/usr/bin/env python3
"""usage: tools/seed_store.py <worktree> <seed-id> <property> '<needs>' '<detected-by json>' """
import sys, os, shutil, json
wt, sid, prop, needs, detected = sys.argv[1:6]
dst = os.path.join('/verif/seeded', sid)
shutil.rmtree(dst, ignore_errors=True)
os.makedirs(dst)
shutil.copy(os.path.join(wt, '_seed/patch.diff'), dst)
shutil.copytree(os.path.join(wt, '_seed/demo'), os.path.join(dst, 'demo'))
if os.path.exists(os.path.join(wt, '_seed/notes.md')):
    shutil.copy(os.path.join(wt, '_seed/notes.md'), dst)
meta = {'property': prop, 'needs_to_manifest': needs,
        'confirmed': 'tools/seed_confirm.sh in the scratch worktree: pinned suite passes with the change (1212 passed), demo exits non-zero with the change and 0 without it',
        'checks_run': json.loads(detected)}
json.dump(meta, open(os.path.join(dst, 'meta.json'), 'w'), indent=1)
print('stored', dst)
