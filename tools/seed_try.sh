#!/bin/bash
# usage: tools/seed_try.sh <patch> <check-id>... ; applies the patch to /repo, runs the quick checks, reverts
patch=$1; shift
cd /verif
git -C /repo apply "$patch" || { echo "patch does not apply"; exit 2; }
for c in "$@"; do
  ./check $c --tier quick > work/seed-$c.out 2>&1; rc=$?
  echo "check $c rc=$rc: $(grep -c '^VIOLATION' work/seed-$c.out) violation lines; $(grep '^  C' work/seed-$c.out | awk '{print $1}' | sort | uniq -c | tr '\n' ' ')"
  grep "TOOL-ERROR" work/seed-$c.out | head -3
done
git -C /repo checkout -- .
git -C /repo status --short | head -3
