#!/usr/bin/env python3
import sys, json
sys.path.insert(0, '/verif')
from vlib import common
rid = sys.argv[1]; src = sys.argv[2] if len(sys.argv) > 2 else '/verif/work/dev.recs'
for r in common.read_ndjson(src):
    if r['id'] != rid: continue
    print('hardOrder', r['hardOrder'], 'ndims', r['ndims'])
    for p, d in enumerate(r['dur']): print('dur', p + 1, d)
    for j in r['jobs']:
        print(' job', j['id'], 'dyn' if j['dyn'] else '', j['group'], j['compat'], j['allOf'], j['oneOf'], j['noneOf'], 'val', j['value'])
        for t in j['tasks']: print('    ', t['kind'], t['demand'], 'ord', t['order'], [(p['loc'], p['dur'], p['tws'], p['tag']) for p in t['places']])
    for v in r['vehicles']:
        print(' veh', v['id'], v['type'], 'prof', v['profile'], 'x', v['scale'], 'cap', v['cap'], 'cost', v['fixedU'], v['cdU'], v['ctU'], v['skills'], 'lim', v['maxDist'], v['maxDur'], v['tourSize'])
        for s in v['shifts']: print('    shift', {k: s[k] for k in ('sloc', 'earliest', 'latest', 'hasEnd', 'eloc', 'elatest')}, 'reloads', s['reloads'], 'breaks', s['breaks'])
    for t in r['tours']:
        print(' TOUR', t['vehicle'], 'shift', t['shift'], t['stat'])
        for s in t['stops']:
            print('   stop loc', s['loc'], 'arr', s['arr'], 'dep', s['dep'], 'load', s['load'], 'dist', s['dist'])
            for a in s['acts']: print('       ', a['job'], a['type'], 'tag', a['tag'], 'loc', a['loc'], a['start'], a['end'])
    print(' unassigned', r['unassigned'], 'viol', r['violations'], 'rel', r['relations'])
    print(' stat', r['stat'])
