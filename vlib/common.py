"""Shared driver plumbing: paths, subprocess capture, cargo build, TLC runs, evidence, known findings."""
import json, os, re, subprocess, sys, time, hashlib, shutil

ROOT = os.path.dirname(os.path.dirname(os.path.abspath(__file__)))
SPEC = os.path.join(ROOT, 'spec')
HARNESS = os.path.join(ROOT, 'harness')
WORK = os.path.join(ROOT, 'work')
EVIDENCE = os.path.join(ROOT, 'evidence')
REPLAYS = os.path.join(ROOT, 'replays')
TLA_JAR = '/opt/veriftools/tla/tla2tools.jar'
TLA_CP = TLA_JAR + ':/opt/veriftools/tla/CommunityModules-deps.jar'


class ToolError(Exception):
    """The machinery failed (build error, TLC error, timeout): exit code 2, never a verdict."""


class HarnessPanic(Exception):
    """A harness binary died with a Rust panic (exit code 101) outside its catch_unwind guards: on the unchanged tree this never
    happens, so it is reported as a violation (a change to the code under test made code panic that the harness relies on)."""
    def __init__(self, bin_name, output):
        super().__init__('%s panicked' % bin_name)
        self.bin_name, self.output = bin_name, output


REPO = '/repo'


def seed():
    try:
        return int(os.environ.get('VERIF_SEED', '1'))
    except ValueError:
        return 1


def workdir(name):
    d = os.path.join(WORK, name)
    shutil.rmtree(d, ignore_errors=True)
    os.makedirs(d, exist_ok=True)
    return d


def run(cmd, cwd=None, env=None, timeout=None, log=None):
    """Runs a child with stdout+stderr captured (the code under test prints to stdout)."""
    e = dict(os.environ)
    if env:
        e.update(env)
    t0 = time.time()
    try:
        p = subprocess.run(cmd, cwd=cwd, env=e, stdout=subprocess.PIPE, stderr=subprocess.STDOUT, timeout=timeout)
    except subprocess.TimeoutExpired as ex:
        out = (ex.stdout or b'').decode('utf-8', 'replace')
        if log:
            open(log, 'w').write(out)
        raise ToolError('timeout after %ss: %s' % (timeout, ' '.join(cmd[:6])))
    out = p.stdout.decode('utf-8', 'replace')
    if log:
        open(log, 'w').write(out)
    return p.returncode, out, time.time() - t0


_built = set()

def cargo_build(bin_name, package=None):
    """Builds one harness binary from /repo's current working tree (hooks on via harness/.cargo/config.toml)."""
    key = (bin_name, package)
    path = os.path.join(HARNESS, 'target', 'debug', bin_name)
    if key in _built:
        return path
    lock_src, lock_dst = '/repo/Cargo.lock', os.path.join(HARNESS, 'Cargo.lock')
    if not os.path.exists(lock_dst):
        shutil.copy(lock_src, lock_dst)
    cmd = ['cargo', 'build', '--offline', '--bin', bin_name]
    if package:
        cmd += ['-p', package]
    os.makedirs(WORK, exist_ok=True)
    rc, out, _ = run(cmd, cwd=HARNESS, env={'CARGO_NET_OFFLINE': 'true'}, timeout=1800,
                     log=os.path.join(WORK, 'cargo-%s.log' % bin_name))
    if rc != 0:
        tail = '\n'.join(out.splitlines()[-40:])
        raise ToolError('cargo build %s failed:\n%s' % (bin_name, tail))
    _built.add(key)
    return path


def run_bin(bin_name, args, timeout=3600, env=None, log=None, package=None):
    path = cargo_build(bin_name, package)
    rc, out, dt = run([path] + [str(a) for a in args], cwd=ROOT, env=env, timeout=timeout, log=log)
    if rc == 101:
        raise HarnessPanic(bin_name, out)
    if rc != 0:
        raise ToolError('%s exited %s:\n%s' % (bin_name, rc, '\n'.join(out.splitlines()[-30:])))
    return out, dt


class TlcResult:
    def __init__(self, rc, out, wall):
        self.rc, self.out, self.wall = rc, out, wall
        m = re.search(r'(\d+) states generated, (\d+) distinct states found', out)
        self.generated = int(m.group(1)) if m else 0
        self.distinct = int(m.group(2)) if m else 0
        m = re.search(r'The depth of the complete state graph search is (\d+)', out)
        self.depth = int(m.group(1)) if m else 0
        self.fails = [tuple(x) for x in re.findall(r'^"?VERDICT-FAIL (\S+) (\d+) ([^"\n]*)"?$', out, re.M)]
        self.prints = re.findall(r'^<<"([A-Z-]+)", (.*)>>$', out, re.M)
        self.invariant_violated = re.findall(r'Invariant (\S+) is violated', out)
        self.errors = [l for l in out.splitlines() if l.startswith('Error:')]
        self.finished = 'Model checking completed' in out or 'Finished in' in out

    def coverage(self):
        """action name -> (distinct, total) from -coverage output lines '<Action line .. of module M>: d:t'."""
        cov = {}
        for m in re.finditer(r'^<(\w+) line \d+, col \d+ to line \d+, col \d+ of module (\w+)>: (\d+):(\d+)', self.out, re.M):
            cov[m.group(1)] = (int(m.group(3)), int(m.group(4)))
        return cov


def tlc(module, cfg=None, env=None, workers=2, timeout=1800, simulate=None, depth=None, extra=None, name=None,
        deque=False, xmx='4g', coverage=False, seed_arg=None):
    """Runs TLC on spec/<module>.tla with spec/<cfg>; returns TlcResult. Never raises on invariant violation."""
    name = name or module
    meta = os.path.join(WORK, 'tlc-' + name)
    shutil.rmtree(meta, ignore_errors=True)
    os.makedirs(meta, exist_ok=True)
    jopts = '-Xss1g'
    if deque:
        jopts += ' -Dtlc2.tool.queue.IStateQueue=StateDeque'
    cmd = ['java', '-XX:+UseParallelGC', '-Xmx' + xmx, '-cp', TLA_CP, 'tlc2.TLC', '-workers', str(workers),
           '-metadir', meta, '-cleanup', '-noGenerateSpecTE', '-config', cfg or (module + '.cfg')]
    if coverage:
        cmd += ['-coverage', '1']
    if simulate:
        cmd += ['-simulate', simulate]
    if depth:
        cmd += ['-depth', str(depth)]
    if seed_arg is not None:
        cmd += ['-seed', str(seed_arg)]
    if extra:
        cmd += extra
    cmd.append(module + '.tla')
    e = {'JAVA_TOOL_OPTIONS': jopts}
    if env:
        e.update({k: str(v) for k, v in env.items()})
    log = os.path.join(WORK, 'tlc-%s.log' % name)
    rc, out, dt = run(cmd, cwd=SPEC, env=e, timeout=timeout, log=log)
    shutil.rmtree(meta, ignore_errors=True)
    res = TlcResult(rc, out, dt)
    # rc: 0 ok, 12 invariant violated, 13 property violated, 10 assumption, 11 deadlock; others are tool trouble
    # 0 ok, 12 invariant violated, 13 property violated, 10 assumption / postcondition false
    if rc not in (0, 10, 12, 13) or (rc == 0 and not res.finished and not simulate):
        raise ToolError('TLC failed on %s (rc=%s), see %s:\n%s' % (module, rc, log, '\n'.join(out.splitlines()[-25:])))
    return res


class MergedTlc:
    """the results of several TLC runs over consecutive chunks of one record list, presented as one"""
    def __init__(self, parts, offsets):
        self.rc = max((p.rc for p in parts), default=0)
        self.out = '\n'.join(p.out for p in parts)
        self.wall = sum(p.wall for p in parts)
        self.generated = sum(p.generated for p in parts)
        self.distinct = sum(p.distinct for p in parts)
        self.depth = sum(p.depth for p in parts)
        # the record index of a verdict is made global again
        self.fails = [(n, str(int(i) + off), rid) for p, off in zip(parts, offsets) for n, i, rid in p.fails]
        self.prints = [x for p in parts for x in p.prints]
        self.invariant_violated = [x for p in parts for x in p.invariant_violated]
        self.errors = [x for p in parts for x in p.errors]
        self.finished = all(p.finished for p in parts)


def tlc_records(module, records, key, path, env=None, chunk=40000, parallel=4, name=None, **kw):
    """Judge modules walk one state per record, i.e. one behaviour as long as the record list; TLC handles behaviours of at most
    65535 states.  Longer lists are cut into chunks that are judged by separate TLC runs (up to `parallel` at a time; records are
    independent of each other).  `key` is the IOEnv name of the record file, `path` where to write it."""
    name = name or module
    if len(records) <= chunk:
        write_ndjson(path, records)
        e = dict(env or {}); e[key] = path
        return tlc(module, env=e, name=name, **kw)
    import concurrent.futures
    pieces = [records[i:i + chunk] for i in range(0, len(records), chunk)]
    offsets = [i for i in range(0, len(records), chunk)]
    def one(k):
        pk = '%s.part%d' % (path, k)
        write_ndjson(pk, pieces[k])
        e = dict(env or {}); e[key] = pk
        r = tlc(module, env=e, name='%s-part%d' % (name, k), **kw)
        try:
            os.remove(pk)
        except OSError:
            pass
        return r
    with concurrent.futures.ThreadPoolExecutor(max_workers=parallel) as ex:
        parts = list(ex.map(one, range(len(pieces))))
    write_ndjson(path, records[:1000])   # a sample stays for inspection
    return MergedTlc(parts, offsets)


# ---------------- known findings ----------------
def load_findings():
    path = os.path.join(ROOT, 'known_findings.json')
    if not os.path.exists(path):
        return []
    return json.load(open(path))['findings']


CURRENT_TIER = 'quick'


class Verdict:
    """Collects violations for one property, separates listed known findings, prints the interface lines."""
    def __init__(self, pid):
        self.pid = pid
        self.known = {f['key']: f for f in load_findings() if f['property'] == pid and f.get('status') == 'open'}
        self.violations = []   # (key, description, replay_obj)
        self.known_hits = {}
        if os.path.isdir(REPLAYS):
            for f in os.listdir(REPLAYS):
                if f.startswith(pid + '-'):
                    os.remove(os.path.join(REPLAYS, f))

    def add(self, key, description, replay):
        if key in self.known:
            self.known_hits.setdefault(key, []).append(description)
        else:
            self.violations.append((key, description, replay))

    def finish(self):
        """Prints KNOWN-FINDING / VIOLATION lines; returns exit code."""
        # a listed finding suppresses what was recorded, not a different defect that shows under the same key: every entry carries
        # the largest number of occurrences seen per run on the unchanged tree (`max_seen`, per tier); far more than that
        # (4 x + 8 quick, 6 x + 20 thorough) is reported as a violation of its own
        for key, descs in sorted(self.known_hits.items()):
            seen = (self.known[key].get('max_seen') or {}).get(CURRENT_TIER)
            if seen is None:
                continue
            bound = 4 * seen + 8 if CURRENT_TIER == 'quick' else 6 * seen + 20
            bound = (self.known[key].get('alarm_above') or {}).get(CURRENT_TIER, bound)
            if len(descs) > bound:
                self.violations.append((key + '/surge', 'the recorded finding %s showed %d times in this run; on the unchanged tree it shows at most %d times per %s run '
                                        '(alarm above %d): something else fails under the same key, e.g. %s' % (key, len(descs), seen, CURRENT_TIER, bound, descs[-1][:160]),
                                        {'key': key, 'occurrences': len(descs), 'recorded_max': seen, 'examples': descs[:5]}))
        for key, descs in sorted(self.known_hits.items()):
            print('KNOWN-FINDING: property=%s %s (%d occurrence(s); e.g. %s)' % (self.pid, key, len(descs), descs[0][:200]))
        if self.violations or self.known_hits:
            # development aid: an append-only log of everything ever reported (not read by any check)
            try:
                with open(os.path.join(WORK, 'violations-log.ndjson'), 'a') as f:
                    for key, desc, replay in self.violations[:50]:
                        f.write(json.dumps({'t': time.time(), 'seed': seed(), 'key': key, 'desc': desc, 'replay': replay}) + '\n')
            except OSError:
                pass
        if not self.violations:
            return 0
        os.makedirs(REPLAYS, exist_ok=True)
        seen = set()
        for i, (key, desc, replay) in enumerate(self.violations[:20]):
            path = os.path.join(REPLAYS, '%s-%s-%d.json' % (self.pid, re.sub(r'[^A-Za-z0-9_.-]+', '_', key)[:60], i))
            json.dump({'property': self.pid, 'key': key, 'description': desc, 'replay': replay}, open(path, 'w'), indent=1)
            if key in seen and len(seen) > 0 and i >= 6:
                continue
            seen.add(key)
            print('VIOLATION property=%s replay=%s' % (self.pid, path))
            print('  %s: %s' % (key, desc[:300]))
        if len(self.violations) > 6:
            import collections as _c
            print('  %d violations in total, by key: %s' % (len(self.violations), dict(_c.Counter(k for k, _, _ in self.violations))))
        return 1


def write_evidence(pid, tier, level, coverage, wall_s, violations, assumptions=None):
    os.makedirs(EVIDENCE, exist_ok=True)
    ev = {'property_id': pid, 'tier': tier, 'seed': seed(), 'level': level, 'coverage': coverage,
          'assumptions': assumptions or [], 'wall_s': round(wall_s, 2), 'violations': violations}
    json.dump(ev, open(os.path.join(EVIDENCE, pid + '.json'), 'w'), indent=1)


def digest(obj):
    return hashlib.sha1(json.dumps(obj, sort_keys=True).encode()).hexdigest()


def write_ndjson(path, items):
    with open(path, 'w') as f:
        for it in items:
            f.write(json.dumps(it) + '\n')


def read_ndjson(path):
    return [json.loads(l) for l in open(path) if l.strip()]
