"""Seeded generator of *valid* pragmatic problems (integer stratum) + solver configurations.

Everything that crosses into the TLA+ oracle is an integer: index locations, integer matrices, integer
durations / windows / costs / scales.  Times are Unix seconds close to 1970 so that 32-bit TLC integers
are never exceeded.  The generator only produces documents that the documentation calls valid; the
oracle (spec/VrpModel.tla) never looks at how a document was generated.
"""
import random, datetime, json, copy

def ts(t):
    return (datetime.datetime(1970, 1, 1, tzinfo=datetime.timezone.utc) + datetime.timedelta(seconds=int(t))).strftime('%Y-%m-%dT%H:%M:%SZ')

def loc(i):
    return {"index": i}

class Gen:
    def __init__(self, seed, size='small', features=None):
        self.r = random.Random(seed)
        # second stream for dimensions added later: the first one keeps producing what it produced before
        self.r2 = random.Random(seed * 2654435761 % (1 << 31) + 17)
        self.seed = seed
        self.size = size
        self.forced = features or {}

    def flag(self, name, p):
        if name in self.forced:
            return self.forced[name]
        return self.r.random() < p

    # ---------- routing ----------
    def matrices(self, n, profiles, unreachable):
        r = self.r
        metric = self.metric
        pts = [(r.randint(0, 60), r.randint(0, 60)) for _ in range(n)]
        # a few duplicated coordinates -> zero legs between distinct locations
        if n > 3 and r.random() < 0.3:
            pts[r.randrange(n)] = pts[r.randrange(n)]
        ms = []
        for p in profiles:
            speed = r.choice([1, 1, 2])
            asym = r.random() < 0.4
            dist, dur, err = [], [], []
            for i in range(n):
                for j in range(n):
                    if i == j:
                        d = 0
                    else:
                        d = abs(pts[i][0] - pts[j][0]) + abs(pts[i][1] - pts[j][1])
                        if asym:
                            d += r.randint(0, 6)
                    dist.append(d * 10)
                    dur.append(d * speed)
                    err.append(0)
            if metric:
                # shortest-path closure: triangle inequality holds for durations and distances
                for k_ in range(n):
                    for i in range(n):
                        for j in range(n):
                            if dist[i * n + j] > dist[i * n + k_] + dist[k_ * n + j]:
                                dist[i * n + j] = dist[i * n + k_] + dist[k_ * n + j]
                dur = [x // 10 * speed for x in dist]
            m = {"profile": p, "travelTimes": dur, "distances": dist}
            if n < 3:
                pass
            elif unreachable == 'pairwise':
                # a few directed pairs unreachable
                for _ in range(r.randint(1, 3)):
                    i, j = r.randrange(1, n), r.randrange(1, n)
                    if i != j:
                        err[i * n + j] = 1
                m["errorCodes"] = err
            elif unreachable == 'location':
                # one location cannot be reached from / left to anywhere else with this profile
                x = r.randrange(1, n)
                for i in range(n):
                    if i != x:
                        err[i * n + x] = 1; err[x * n + i] = 1
                m["errorCodes"] = err
            ms.append(m)
        return ms

    # ---------- jobs ----------
    def windows(self, horizon, force=False):
        r = self.r
        k = r.choice([0, 0, 1, 1, 1, 2, 3]) if not force else r.choice([1, 2])
        if k == 0:
            return None
        cuts = sorted(r.sample(range(0, horizon, 10), 2 * k))
        return [[ts(cuts[2 * i]), ts(cuts[2 * i + 1])] for i in range(k)]

    def place(self, n, horizon, tagged, single_place=False):
        r = self.r
        p = {"location": loc(r.randrange(1, n)), "duration": float(r.choice([0, 5, 10, 20, 30]))}
        tw = self.windows(horizon)
        if single_place and tw and len(tw) > 1:
            tw = tw[:1]
        if tw:
            p["times"] = tw
        if tagged:
            p["tag"] = "t%d" % r.randrange(1000)
        return p

    def task(self, n, horizon, dims, with_demand, tagged, simple=False, partial=False):
        r = self.r
        places = [self.place(n, horizon, tagged, simple)]
        if not simple and r.random() < 0.25:
            p2 = self.place(n, horizon, tagged)
            if r.random() < 0.4:
                # same location, different duration/tag: exercises place identification
                p2["location"] = places[0]["location"]
            if p2["location"] == places[0]["location"]:
                # both places then carry a tag: without tags the document under-determines which place an activity used
                # (DESIGN, C03/C11/C12 carve-out)
                for q in (places[0], p2):
                    q.setdefault("tag", "t%d" % r.randrange(1000))
            elif tagged and partial and r.random() < 0.5:
                # partially tagged task (single-task jobs only: tasks of multi jobs need unique tags): an untagged place before / after a tagged one
                r.choice([places[0], p2]).pop("tag", None)
            places.append(p2)
        t = {"places": places}
        if with_demand:
            t["demand"] = [r.choice([1, 1, 2, 3]) for _ in range(dims)]
        return t

    def job(self, jid, n, horizon, dims, f):
        r = self.r
        kind = r.choices(["delivery", "pickup", "pd", "service", "replacement", "multi"],
                         weights=[30, 20, 18 if f['pd'] else 0, 6, 4, 8 if f['multi'] else 0])[0]
        tagged = f['tags'] and r.random() < 0.6
        j = {"id": jid}
        if kind == "delivery":
            j["deliveries"] = [self.task(n, horizon, dims, True, tagged, partial=True)]
        elif kind == "pickup":
            j["pickups"] = [self.task(n, horizon, dims, True, tagged, partial=True)]
        elif kind == "service":
            j["services"] = [self.task(n, horizon, dims, False, tagged, partial=True)]
        elif kind == "replacement":
            j["replacements"] = [self.task(n, horizon, dims, True, tagged, partial=True)]
        elif kind == "pd":
            p = self.task(n, horizon, dims, True, True)
            d = self.task(n, horizon, dims, True, True)
            d["demand"] = list(p["demand"])
            j["pickups"], j["deliveries"] = [p], [d]
        else:
            shape = r.choice(["2p1d", "1p2d", "2d", "2p", "d+s"])
            def mk(with_demand): return self.task(n, horizon, dims, with_demand, True)
            if shape == "2p1d":
                a, b, c = mk(True), mk(True), mk(True)
                c["demand"] = [x + y for x, y in zip(a["demand"], b["demand"])]
                j["pickups"], j["deliveries"] = [a, b], [c]
            elif shape == "1p2d":
                a, b, c = mk(True), mk(True), mk(True)
                a["demand"] = [x + y for x, y in zip(b["demand"], c["demand"])]
                j["pickups"], j["deliveries"] = [a], [b, c]
            elif shape == "2d":
                j["deliveries"] = [mk(True), mk(True)]
            elif shape == "2p":
                j["pickups"] = [mk(True), mk(True)]
            else:
                j["deliveries"], j["services"] = [mk(True)], [mk(False)]
        # unique tags inside multi jobs are a documented prerequisite of the init reader; make all tags of a job distinct
        seen = set()
        for key in ("pickups", "deliveries", "replacements", "services"):
            for t in j.get(key, []):
                for p in t["places"]:
                    if "tag" in p:
                        while p["tag"] in seen:
                            p["tag"] += "x"
                        seen.add(p["tag"])
        if f['skills'] and r.random() < 0.4:
            sk = {}
            if r.random() < 0.6: sk["allOf"] = r.sample(["a", "b", "c"], r.randint(1, 2))
            if r.random() < 0.3: sk["oneOf"] = r.sample(["a", "b", "c"], r.randint(1, 2))
            if r.random() < 0.3: sk["noneOf"] = r.sample(["a", "b", "c"], 1)
            if sk: j["skills"] = sk
        if f['value'] and r.random() < 0.5:
            j["value"] = float(r.randint(1, 9))
        if f['group'] and r.random() < 0.5:
            j["group"] = r.choice(["g1", "g2"])
        if f['compat'] and r.random() < 0.5:
            j["compatibility"] = r.choice(["c1", "c2"])
        if f['order'] and r.random() < 0.6:
            for key in ("pickups", "deliveries", "replacements", "services"):
                for t in j.get(key, []):
                    t["order"] = r.randint(1, 3)
        return j

    # ---------- fleet ----------
    def shift(self, n, horizon, f, start_at, dims):
        r = self.r
        s0 = start_at
        length = r.choice([horizon // 2, horizon, horizon])
        start = {"earliest": ts(s0), "location": loc(0 if r.random() < 0.8 else r.randrange(n))}
        offset_break = f['breaks'] and r.random() < 0.4
        if offset_break or r.random() < 0.35:
            start["latest"] = ts(s0) if offset_break or r.random() < 0.5 else ts(s0 + r.choice([50, 200]))
        sh = {"start": start}
        if r.random() < 0.75:
            sh["end"] = {"latest": ts(s0 + length), "location": start["location"] if r.random() < 0.8 else loc(r.randrange(n))}
        if f['breaks'] and r.random() < 0.7:
            place = {"duration": float(r.choice([10, 30]))}
            if r.random() < 0.4:
                place["location"] = loc(r.randrange(n))
            if r.random() < 0.5:
                place["tag"] = "brk"
            if offset_break:
                a = r.randint(10, length // 2)
                time = [float(a), float(a + r.choice([50, 100, 200]))]
            else:
                a = s0 + r.randint(10, length // 2)
                time = [ts(a), ts(min(a + r.choice([50, 100, 200]), s0 + length))]
            b = {"time": time, "places": [place]}
            if r.random() < 0.3:
                b["policy"] = r.choice(["skip-if-no-intersection", "skip-if-arrival-before-end"])
            sh["breaks"] = [b]
            r2 = self.r2
            if r2.random() < 0.25:
                # an alternative place of the same break (another duration / location / tag)
                alt = {"duration": float(r2.choice([5, 20, 40]))}
                # all places of a break with a location or none of them: a mix makes the solver panic ("break with multiple places is
                # not supported", recorded finding) and is generated only on request
                coin = r2.random() < 0.5
                if (coin if self.forced.get('mixed_break_places') else "location" in place): alt["location"] = loc(r2.randrange(n))
                alt["tag"] = "brk-alt"
                b["places"].append(alt)
            if r2.random() < 0.25 and not offset_break:
                # a second break later in the shift (windows do not intersect: E1303)
                a2 = a + 210 + r2.randint(0, 100)
                if a2 + 60 <= s0 + length:
                    p2 = {"duration": float(r2.choice([10, 15]))}
                    if r2.random() < 0.5: p2["tag"] = "brk2"
                    sh["breaks"].append({"time": [ts(a2), ts(min(a2 + r2.choice([50, 100]), s0 + length))], "places": [p2]})
        if f['reloads'] and r.random() < 0.8:
            rl = []
            for _ in range(r.randint(1, 2)):
                x = {"location": loc(r.choice([0, r.randrange(n)])), "duration": float(r.choice([0, 10, 20]))}
                if r.random() < 0.3: x["tag"] = "rl%d" % len(rl)
                if f['resources'] and r.random() < 0.7: x["resourceId"] = "res1"
                if self.r2.random() < 0.2:
                    # opening times of the reload place inside the shift
                    a = s0 + self.r2.randint(0, length // 2)
                    x["times"] = [[ts(a), ts(min(a + self.r2.choice([100, 300, 800]), s0 + length))]]
                rl.append(x)
            sh["reloads"] = rl
        return sh, s0 + length

    def fleet(self, n, horizon, dims, profiles, f):
        r = self.r
        types = []
        ntypes = r.choice([1, 1, 2, 3]) if self.size != 'tiny' else 1
        vid = 0
        for t in range(ntypes):
            ids = []
            for _ in range(r.choice([1, 1, 2, 3])):
                vid += 1
                ids.append("v%d" % vid)
            shifts = []
            at = r.choice([0, 0, 100])
            for _ in range((2 if f['multishift'] and r.random() < 0.5 else 1) + (1 if f['multishift'] and self.r2.random() < 0.2 else 0)):
                sh, at = self.shift(n, horizon, f, at, dims)
                at += r.choice([1, 50])
                shifts.append(sh)
            vt = {
                "typeId": "type%d" % t, "vehicleIds": ids,
                "profile": {"matrix": r.choice(profiles)},
                "costs": {"fixed": float(r.choice([0, 10, 25])), "distance": float(r.choice([1, 2])), "time": float(r.choice([1, 2, 3]))},
                "shifts": shifts,
                "capacity": [r.choice([2, 3, 4, 6, 10]) for _ in range(dims)],
            }
            if r.random() < 0.2:
                del vt["costs"]["fixed"]
            if f['scale'] and r.random() < 0.5:
                vt["profile"]["scale"] = float(r.choice([2, 3]))
            if f['skills'] and r.random() < 0.7:
                vt["skills"] = r.sample(["a", "b", "c"], r.randint(1, 3))
            if f['limits'] and r.random() < 0.7:
                lim = {}
                if r.random() < 0.5: lim["maxDistance"] = float(r.choice([600, 1200, 2000]))
                if r.random() < 0.5: lim["maxDuration"] = float(r.choice([150, 300, 600]))
                if r.random() < 0.5: lim["tourSize"] = r.choice([2, 3, 5])
                if lim: vt["limits"] = lim
            types.append(vt)
        fl = {"vehicles": types, "profiles": [{"name": p} for p in profiles]}
        if f['resources']:
            fl["resources"] = [{"type": "reload", "id": "res1", "capacity": [r.choice([3, 6, 12]) for _ in range(dims)]}]
        return fl

    def objectives(self, f, has_value, has_order):
        r = self.r
        if not f['objectives']:
            return None
        cost = {"type": r.choice(["minimize-cost", "minimize-distance", "minimize-duration"])}
        objs = []
        if has_value:
            objs.append({"type": "maximize-value"} if self.r2.random() < 0.7 else {"type": "maximize-value", "breaks": float(self.r2.choice([1, 100]))})
        shape = r.random()
        if shape < 0.15:
            # unusual but valid: unassigned jobs traded against cost inside one competitive layer
            objs.append({"type": "multi-objective", "strategy": {"name": "weighted-sum", "weights": [100.0, 1.0]},
                         "objectives": [{"type": "minimize-unassigned"}, cost]})
            if has_order and f['softorder']:
                objs.append({"type": "tour-order"})
            return objs
        if shape < 0.3:
            # a soft objective ranked above the number of unassigned jobs
            objs.append({"type": r.choice(["minimize-tours", "balance-activities", "minimize-arrival-time"])})
            objs.append({"type": "minimize-unassigned"})
            if has_order and f['softorder']:
                objs.append({"type": "tour-order"})
            objs.append(cost)
            return objs
        objs.append({"type": "minimize-unassigned"} if r.random() < 0.7 else {"type": "minimize-unassigned", "breaks": 1.0})
        if has_order and f['softorder']:
            objs.append({"type": "tour-order"})
        extra = r.choice([None, "minimize-tours", "maximize-tours", "balance-max-load", "balance-activities",
                          "balance-distance", "balance-duration", "minimize-arrival-time", "fast-service", "compact-tour", "multi", "multi"])
        if extra == "multi":
            # one competitive layer: the cost with the number of tours, or with another objective that keeps state of its own
            other = r.choice([{"type": "minimize-tours"}, {"type": "minimize-tours"}, {"type": "fast-service"}, {"type": "compact-tour", "job_radius": 2}]
                             + ([{"type": "tour-order"}] if has_order and f['softorder'] and not any(o.get("type") == "tour-order" for o in objs) else []))
            objs.append({"type": "multi-objective", "strategy": {"name": "sum"}, "objectives": [other, cost] if r.random() < 0.5 else [cost, other]})
            return objs
        if extra == "compact-tour":
            objs.append({"type": "compact-tour", "job_radius": 2})
        elif extra:
            objs.append({"type": extra})
        objs.append(cost)
        return objs

    # ---------- whole problem ----------
    def features(self):
        names = dict(pd=0.6, multi=0.3, tags=0.5, skills=0.25, value=0.2, group=0.15, compat=0.15, order=0.2,
                     softorder=0.4, breaks=0.3, reloads=0.3, resources=0.3, limits=0.3, scale=0.3, multishift=0.25,
                     dims2=0.25, profiles2=0.25, unreachable=0.15, objectives=0.4, travel_only=0.08)
        f = {k: self.flag(k, p) for k, p in names.items()}
        if not f['reloads']:
            f['resources'] = False
        if f['travel_only']:
            f['limits'] = True; f['breaks'] = False
        return f

    def problem(self):
        r = self.r
        f = self.features()
        njobs = {'tiny': r.randint(2, 4), 'small': r.randint(3, 9), 'medium': r.randint(8, 16), 'large': r.randint(25, 60)}[self.size]
        n = min(4 + njobs // 2, 12) if self.size != 'tiny' else 4
        n = max(n, 3)
        horizon = r.choice([400, 800, 1500])
        dims = 2 if f['dims2'] else 1
        profiles = ["car", "truck"] if f['profiles2'] else ["car"]
        fleet = self.fleet(n, horizon, dims, profiles, f)
        used = sorted({v["profile"]["matrix"] for v in fleet["vehicles"]})
        jobs = [self.job("job%d" % (i + 1), n, horizon * 2 if f['multishift'] else horizon, dims, f) for i in range(njobs)]
        has_value = any("value" in j for j in jobs)
        has_order = any("order" in t for j in jobs for k in ("pickups", "deliveries", "replacements", "services") for t in j.get(k, []))
        problem = {"plan": {"jobs": jobs}, "fleet": fleet}
        if f.get('travel_only'):
            for j in jobs:
                for k in ("pickups", "deliveries", "replacements", "services"):
                    for t in j.get(k, []):
                        for p in t["places"]:
                            p["duration"] = 0.0
                            p.pop("times", None)
            for vt in fleet["vehicles"]:
                for sh in vt["shifts"]:
                    sh.pop("breaks", None)
                    for x in sh.get("reloads", []):
                        x["duration"] = 0.0
        objs = self.objectives(f, has_value, has_order)
        if objs:
            problem["objectives"] = objs
        # the reader requires the referenced indices to be dense (0..k-1) and the matrix to be k x k
        used_idx = set()
        def walk(x, fn):
            if isinstance(x, dict):
                if set(x.keys()) == {"index"}:
                    fn(x)
                for v in x.values(): walk(v, fn)
            elif isinstance(x, list):
                for v in x: walk(v, fn)
        walk(problem, lambda x: used_idx.add(x["index"]))
        remap = {old: new for new, old in enumerate(sorted(used_idx))}
        done = set()
        def ren(x):
            if id(x) not in done:
                done.add(id(x)); x["index"] = remap[x["index"]]
        walk(problem, ren)
        problem = json.loads(json.dumps(problem))  # no shared sub-objects
        self.metric = self.forced.get('metric', r.random() < 0.7)
        self.unreach_mode = (self.forced.get('unreach_mode') or r.choice(['pairwise', 'location'])) if f['unreachable'] else None
        matrices = self.matrices(len(remap), profiles, self.unreach_mode)
        return problem, matrices, f

    # ---------- solver configuration ----------
    def config(self, gens=None):
        r = self.r
        gens = gens if gens is not None else r.choice([1, 2, 3, 10, 25, 40])
        cfg = {
            "termination": {"maxGenerations": gens, "maxTime": 30},
            "telemetry": {"progress": {"enabled": False}, "metrics": {"enabled": False}},
            "environment": {"logging": {"enabled": False}},
        }
        if r.random() < 0.2:
            cfg["termination"]["variation"] = {"intervalType": "sample", "value": r.choice([3, 10]), "cv": r.choice([0.01, 1.0]), "isGlobal": r.random() < 0.5}
        if r.random() < 0.6:
            cfg["environment"]["parallelism"] = {"numThreadPools": r.choice([1, 2, 3]), "threadsPerPool": r.choice([1, 2, 4, 8])}
        if r.random() < 0.2:
            cfg["environment"]["isExperimental"] = True
        pop = r.choice([None, "greedy", "elitism", "rosomaxa"])
        evo = {}
        if pop == "greedy":
            evo["population"] = {"type": "greedy", "selectionSize": r.choice([1, 2, 4])}
        elif pop == "elitism":
            evo["population"] = {"type": "elitism", "maxSize": r.choice([1, 2, 4]), "selectionSize": r.choice([1, 2, 4])}
        elif pop == "rosomaxa":
            evo["population"] = {"type": "rosomaxa", "selectionSize": r.choice([2, 4]), "maxEliteSize": r.choice([1, 2]),
                                 "maxNodeSize": r.choice([1, 2]), "spreadFactor": r.choice([0.25, 0.75]),
                                 "distributionFactor": r.choice([0.25, 0.75]), "rebalanceMemory": r.choice([10, 100]),
                                 "explorationRatio": r.choice([0.1, 0.9])}
        recreates = [{"type": "cheapest", "weight": 1}, {"type": "farthest", "weight": 1}, {"type": "nearest", "weight": 1},
                     {"type": "gaps", "min": 2, "max": 20, "weight": 1}, {"type": "skip-best", "start": 1, "end": 2, "weight": 1},
                     {"type": "regret", "start": 2, "end": 3, "weight": 1}, {"type": "blinks", "weight": 1},
                     {"type": "perturbation", "probability": 0.33, "min": -0.2, "max": 0.2, "weight": 1},
                     {"type": "skip-random", "weight": 1}, {"type": "slice", "weight": 1}]
        if r.random() < 0.4:
            ms = r.sample(recreates, r.randint(1, 4))
            evo["initial"] = {"method": ms[0], "alternatives": {"methods": ms[1:], "maxSize": r.choice([1, 2, 4]), "quota": r.choice([0.05, 0.5])}}
        if evo:
            cfg["evolution"] = evo
        hyper = r.choice([None, None, "dynamic-selective", "static-default", "static-custom"])
        if hyper == "dynamic-selective":
            cfg["hyper"] = {"type": "dynamic-selective"}
        elif hyper == "static-default":
            cfg["hyper"] = {"type": "static-selective"}
        elif hyper == "static-custom":
            noise = {"probability": 0.5, "min": -0.1, "max": 0.1}
            ruins_all = [
                {"probability": 1, "type": "adjusted-string", "lmax": 4, "cavg": 2, "alpha": 0.01},
                {"probability": 1, "type": "neighbour", "min": 1, "max": 4},
                {"probability": 1, "type": "worst-job", "skip": 1, "min": 1, "max": 4},
                {"probability": 1, "type": "cluster", "min": 1, "max": 4},
                {"probability": 1, "type": "close-route"}, {"probability": 1, "type": "worst-route"},
                {"probability": 1, "type": "random-route", "min": 1, "max": 2},
                {"probability": 1, "type": "random-job", "min": 1, "max": 4}]
            locals_all = [{"weight": 10, "type": "swap-star"}, {"weight": 10, "type": "inter-route-best", "noise": noise},
                          {"weight": 10, "type": "inter-route-random", "noise": noise},
                          {"weight": 10, "type": "intra-route-random", "noise": noise}, {"weight": 10, "type": "sequence"}]
            ops = []
            if r.random() < 0.5:
                ops.append({"type": "decomposition", "repeat": r.choice([1, 2]), "routes": {"min": 2, "max": 3},
                            "probability": {"threshold": {"jobs": 1, "routes": 1}, "phases": [{"type": "initial", "chance": 0.5}, {"type": "exploration", "chance": 0.5}, {"type": "exploitation", "chance": 0.5}]}})
            if r.random() < 0.7:
                ops.append({"type": "local-search", "probability": {"scalar": r.choice([0.3, 1])}, "times": {"min": 1, "max": 2},
                            "operators": r.sample(locals_all, r.randint(1, 5))})
            ops.append({"type": "ruin-recreate", "probability": {"scalar": 1},
                        "ruins": [{"weight": 1, "methods": r.sample(ruins_all, r.randint(1, 2))} for _ in range(r.randint(1, 4))],
                        "recreates": r.sample(recreates, r.randint(1, 5))})
            cfg["hyper"] = {"type": "static-selective", "operators": ops}
        return cfg


def make_case(seed, size='small', features=None, gens=None):
    g = Gen(seed, size, features)
    problem, matrices, f = g.problem()
    cfg = g.config(gens)
    return {"id": "s%d%s" % (seed, size[0]), "seed": seed, "problem": problem, "matrices": matrices, "config": cfg,
            "features": sorted(k for k, v in f.items() if v), "unreach_mode": g.unreach_mode, "travel_only": bool(f.get('travel_only')), "metric": g.metric}


def long_tours(case):
    """The same problem reshaped so that few vehicles drive long tours (20+ activities): generous capacity, two-day shifts, no tour limits,
    most time windows dropped.  Code paths that depend on the length of a tour (sampled leg selection, string removal, re-sequencing) are
    not reached by the short tours of the other strata."""
    c = copy.deepcopy(case)
    c['id'] = case['id'] + 'L'
    r = random.Random(case['seed'] * 31 + 7)
    for vt in c['problem']['fleet']['vehicles']:
        vt['capacity'] = [200 for _ in vt['capacity']]
        vt.pop('limits', None)
        vt['shifts'] = vt['shifts'][:1]
        sh = vt['shifts'][0]
        sh['start'].pop('latest', None)
        if 'end' in sh:
            start = datetime.datetime.strptime(sh['start']['earliest'], '%Y-%m-%dT%H:%M:%SZ')
            sh['end']['latest'] = (start + datetime.timedelta(seconds=200000)).strftime('%Y-%m-%dT%H:%M:%SZ')
        sh.pop('breaks', None)
    for j in c['problem']['plan']['jobs']:
        for key in ('pickups', 'deliveries', 'replacements', 'services'):
            for t in j.get(key, []):
                for pl in t['places']:
                    if r.random() < 0.85:
                        pl.pop('times', None)
    c['features'] = sorted((set(c.get('features', [])) - {'breaks', 'limits', 'multishift', 'travel_only'}) | {'long-tours'})
    c['travel_only'] = False
    return c


def relaxed(case):
    """The same problem with most of what makes jobs unassignable taken away (skills, tour limits, most time windows, late shift ends)
    while fleet size, capacities, breaks, reloads stay: states in which every customer job is assigned over several tours and
    conditional jobs (breaks of idle vehicles, unused reload / recharge markers) wait in `ignored`."""
    c = copy.deepcopy(case)
    c['id'] = case['id'] + 'R'
    r = random.Random(case['seed'] * 37 + 11)
    for vt in c['problem']['fleet']['vehicles']:
        vt.pop('limits', None)
        vt.pop('skills', None)
        for sh in vt['shifts']:
            if 'end' in sh:
                start = datetime.datetime.strptime(sh['start']['earliest'], '%Y-%m-%dT%H:%M:%SZ')
                sh['end']['latest'] = (start + datetime.timedelta(seconds=20000)).strftime('%Y-%m-%dT%H:%M:%SZ')
    for j in c['problem']['plan']['jobs']:
        j.pop('skills', None)
        for key in ('pickups', 'deliveries', 'replacements', 'services'):
            for t in j.get(key, []):
                for pl in t['places']:
                    if r.random() < 0.85:
                        pl.pop('times', None)
    c['features'] = sorted((set(c.get('features', [])) - {'limits', 'skills', 'travel_only'}) | {'relaxed'})
    c['travel_only'] = False
    return c


def _metric(case):
    """triangle inequality for all matrices (durations and distances), no unreachable entries"""
    for m in case["matrices"]:
        if m.get("errorCodes"):
            return False
        for key in ("travelTimes", "distances"):
            v = m[key]; n = int(round(len(v) ** 0.5))
            for i in range(n):
                for j in range(n):
                    for k in range(n):
                        if v[i * n + j] > v[i * n + k] + v[k * n + j]:
                            return False
    return True


def derive_relations(case, solution, rnd):
    """Relations consistent with the constraints, as the documentation requires of user relations: taken from a solution
    the solver returned for the same problem.  Only tours without reload / break stops are used (dropping a reload from a
    pinned sequence would make the relation inconsistent with capacity) and only problems with metric matrices (a pinned
    subsequence of a feasible tour is then feasible as well)."""
    if not _metric(case):
        return None
    problem = copy.deepcopy(case["problem"])
    jobs = {j["id"]: j for j in problem["plan"]["jobs"]}
    def simple(jid):  # E1203 (applied by the code to every relation type): single place and at most one window per task;
        # single-task jobs only ("relation with jobs which have multiple pickups or deliveries places are not yet supported")
        j = jobs.get(jid)
        if j is None: return True
        n = sum(len(j.get(k, [])) for k in ("pickups", "deliveries", "replacements", "services"))
        # one task, or one pickup with one delivery (listed once per task, E1207); several pickups or several deliveries are "not yet supported"
        if not (n == 1 or (n == 2 and len(j.get("pickups", [])) == 1 and len(j.get("deliveries", [])) == 1)):
            return False
        for k in ("pickups", "deliveries", "replacements", "services"):
            for t in j.get(k, []):
                if len(t["places"]) > 1 or len(t["places"][0].get("times") or []) > 1:
                    return False
        return True
    def ntasks(jid):
        return sum(len(jobs[jid].get(kk, [])) for kk in ("pickups", "deliveries", "replacements", "services"))
    rels = []
    for t in solution.get("tours", []):
        acts = [a for s in t["stops"] for a in s["activities"]]
        ids = [a["jobId"] for a in acts]
        if any(a["type"] in ("reload", "break", "recharge") for a in acts):
            continue
        kind = rnd.choice(["any", "sequence", "strict", "none"])
        if kind == "none":
            continue
        has_arrival = ids[-1] == "arrival"
        inner = ids[1:-1] if has_arrival else ids[1:]
        if not inner or not all(simple(x) for x in inner):
            continue
        if kind == "any":
            pick = {i for i in set(inner) if rnd.random() < 0.5}
            seq = [x for x in inner if x in pick]
            if seq:
                rels.append({"type": "any", "jobs": seq, "vehicleId": t["vehicleId"], "shiftIndex": t["shiftIndex"]})
            continue
        mode = rnd.choice(["prefix", "suffix", "block", "pair-block", "pair-tight"])
        k = rnd.randint(1, len(inner))
        pairs = [x for x in set(inner) if inner.count(x) == 2]
        if pairs and rnd.random() < 0.5:
            mode = rnd.choice(["pair-block", "pair-block", "pair-tight"])
        if mode == "pair-block" and pairs:
            # a strict block that opens with the pickup of a pickup-delivery job and closes with its delivery (the id is listed per task)
            x = rnd.choice(sorted(pairs))
            a = inner.index(x); b = len(inner) - 1 - inner[::-1].index(x)
            seq, kind = inner[a:b + 1], "strict"
        elif mode == "pair-tight" and pairs:
            # the two tasks of a pickup-delivery job locked next to each other although the tour served other jobs in between: those jobs
            # are free again and their old places - inside the block - are closed now (fewer stops in between stay feasible: metric matrices)
            apart = [x for x in sorted(pairs) if len(inner) - 1 - inner[::-1].index(x) - inner.index(x) > 1]
            x = rnd.choice(apart or sorted(pairs))
            seq, kind = [x, x], "strict"
        elif mode == "prefix":
            seq = ["departure"] + inner[:k]
        elif mode == "suffix" and has_arrival:
            seq = inner[-k:] + ["arrival"]
        else:
            a = rnd.randrange(len(inner)); seq = inner[a:a + k]
        body = [x for x in seq if x not in ("departure", "arrival")]
        # whole jobs only (E1207)
        if body and all(body.count(x) == ntasks(x) for x in set(body)):
            rels.append({"type": kind, "jobs": seq, "vehicleId": t["vehicleId"], "shiftIndex": t["shiftIndex"]})
    if not rels:
        return None
    problem["plan"]["relations"] = rels
    out = dict(case)
    out["problem"] = problem
    out["id"] = case["id"] + "r"
    out["features"] = sorted(set(case.get("features", [])) | {"relations"})
    return out
