"""Mechanical projection (pragmatic problem, matrices, solution) -> integer-only abstract record for TLC.

Only lookups happen here (location -> 1-based index, job id -> index, vehicle id -> record, RFC3339 -> seconds
relative to a per-record base).  No matching decision is taken: which place / window / break / reload explains an
activity is decided existentially by spec/VrpModel.tla.
"""
import datetime

KINDS = (('pickup', 'pickups'), ('delivery', 'deliveries'), ('replacement', 'replacements'), ('service', 'services'))

class Unsupported(Exception):
    pass

def ts(s):
    return int(datetime.datetime.fromisoformat(s.replace('Z', '+00:00')).timestamp())

def I(x):
    if abs(x - round(x)) > 1e-9:
        raise Unsupported('non-integer value %r' % (x,))
    return int(round(x))

def project_problem(problem, matrices):
    P = problem
    profiles = [p['name'] for p in P['fleet']['profiles']]
    n = None
    pm = {}
    for idx, m in enumerate(matrices):
        if m.get('timestamp'):
            raise Unsupported('time dependent routing')
        pm[m.get('profile') or profiles[idx]] = m
    def mat(m, key):
        nonlocal n
        v = m[key]
        size = int(round(len(v) ** 0.5))
        n = size
        err = m.get('errorCodes')
        rows = []
        for i in range(size):
            row = []
            for j in range(size):
                x = v[i * size + j]
                if err and err[i * size + j] > 0:
                    x = -1
                row.append(x)
            rows.append(row)
        return rows
    dur = [mat(pm[p], 'travelTimes') for p in profiles]
    dist = [mat(pm[p], 'distances') for p in profiles]

    def lix(l):
        if 'index' not in l:
            raise Unsupported('non-index location')
        return l['index'] + 1

    times = [ts(sh['start']['earliest']) for v in P['fleet']['vehicles'] for sh in v['shifts']]
    base = min(times) - 100000
    T = lambda s: ts(s) - base
    tws = lambda x: [[T(a), T(b)] for a, b in x] if x else []
    def place(p):
        return {'loc': lix(p['location']) if p.get('location') else 0, 'dur': I(p['duration']), 'tws': tws(p.get('times')), 'tag': p.get('tag') or ''}

    ndims = max([len(v['capacity']) for v in P['fleet']['vehicles']] +
                [len(t.get('demand') or []) for j in P['plan']['jobs'] for _, key in KINDS for t in (j.get(key) or [])])
    jobs = []
    for j in P['plan']['jobs']:
        tasks = []
        for kind, key in KINDS:
            for t in j.get(key) or []:
                tasks.append({'kind': kind, 'demand': t.get('demand') or [], 'order': t.get('order') or 0, 'places': [place(p) for p in t['places']]})
        sk = j.get('skills') or {}
        dyn = bool(j.get('pickups')) and bool(j.get('deliveries'))
        jobs.append({'id': j['id'], 'tasks': tasks, 'dyn': dyn, 'allOf': sk.get('allOf') or [], 'oneOf': sk.get('oneOf') or [],
                     'noneOf': sk.get('noneOf') or [], 'group': j.get('group') or '', 'compat': j.get('compatibility') or '',
                     'value': I(j.get('value') or 0)})
    jidx = {j['id']: i + 1 for i, j in enumerate(jobs)}

    vehicles = []
    vidx = {}
    for v in P['fleet']['vehicles']:
        for vid in v['vehicleIds']:
            shifts = []
            for sh in v['shifts']:
                e = sh.get('end')
                rc = sh.get('recharges')
                recharge = {'max': I(rc['maxDistance']) if rc else -1, 'stations': [place(x) for x in rc['stations']] if rc else []}
                breaks = []
                for b in sh.get('breaks') or []:
                    if 'places' not in b:
                        raise Unsupported('required break')
                    off = not isinstance(b['time'][0], str)
                    w = [[I(b['time'][0]), I(b['time'][1])]] if off else [[T(b['time'][0]), T(b['time'][1])]]
                    breaks.append({'isOffset': off, 'tws': w,
                                   'places': [{'loc': lix(p['location']) if p.get('location') else 0, 'dur': I(p['duration']), 'tag': p.get('tag') or ''} for p in b['places']]})
                shifts.append({
                    'sloc': lix(sh['start']['location']), 'earliest': T(sh['start']['earliest']),
                    'latest': T(sh['start']['latest']) if sh['start'].get('latest') else -1,
                    'hasEnd': bool(e), 'eloc': lix(e['location']) if e else 0, 'elatest': T(e['latest']) if e else -1,
                    'reloads': [{'loc': lix(r['location']), 'dur': I(r['duration']), 'tws': tws(r.get('times')), 'tag': r.get('tag') or '', 'resource': r.get('resourceId') or ''} for r in sh.get('reloads') or []],
                    'breaks': breaks, 'recharge': recharge})
            lim = v.get('limits') or {}
            vidx[vid] = len(vehicles) + 1
            vehicles.append({
                'id': vid, 'type': v['typeId'], 'profile': profiles.index(v['profile']['matrix']) + 1, 'scale': I(v['profile'].get('scale') or 1),
                'cap': v['capacity'], 'fixedU': I((v['costs'].get('fixed') or 0) * 1e3), 'cdU': I(v['costs']['distance'] * 1e3), 'ctU': I(v['costs']['time'] * 1e3),
                'shifts': shifts, 'skills': v.get('skills') or [],
                'maxDist': I(lim['maxDistance']) if lim.get('maxDistance') is not None else -1,
                'maxDur': I(lim['maxDuration']) if lim.get('maxDuration') is not None else -1,
                'tourSize': lim['tourSize'] if lim.get('tourSize') is not None else -1})

    def all_objectives(objs):
        for o in objs or []:
            yield o['type']
    has_order = any(t['order'] > 0 for j in jobs for t in j['tasks'])
    soft = 'tour-order' in set(all_objectives(P.get('objectives')))
    rels = []
    for r in (P['plan'].get('relations') or []):
        rels.append({'type': r['type'], 'vehicle': r['vehicleId'], 'shift': (r.get('shiftIndex') or 0) + 1,
                     'jobs': [{'id': x, 'jix': jidx.get(x, 0)} for x in r['jobs']]})
    prob = {'n': n, 'ndims': ndims, 'dur': dur, 'dist': dist, 'jobs': jobs, 'vehicles': vehicles, 'relations': rels,
            'hardOrder': bool(has_order and not soft)}
    ctx = {'lix': lix, 'T': T, 'jidx': jidx, 'vidx': vidx}
    return prob, ctx


def project_solution(solution, ctx):
    S = solution
    lix, T, jidx, vidx = ctx['lix'], ctx['T'], ctx['jidx'], ctx['vidx']

    def stat(s):
        t = s['times']
        if t.get('commuting') or t.get('parking'):
            raise Unsupported('clustering statistic')
        return {'costU': int(round(s['cost'] * 1e3)), 'distance': s['distance'], 'duration': s['duration'], 'driving': t['driving'],
                'serving': t['serving'], 'waiting': t['waiting'], 'brk': t['break']}

    tours = []
    for t in S['tours']:
        stops, flat = [], []
        for si, st in enumerate(t['stops']):
            if 'location' not in st:
                raise Unsupported('transit stop')
            sl = lix(st['location']); arr = T(st['time']['arrival']); dep = T(st['time']['departure'])
            acts = []
            for a in st['activities']:
                if a.get('commute'):
                    raise Unsupported('commute')
                tm = a.get('time')
                act = {'stop': si + 1, 'job': a['jobId'], 'jix': jidx.get(a['jobId'], 0), 'type': a['type'], 'tag': a.get('jobTag') or '',
                       'loc': lix(a['location']) if a.get('location') else sl,
                       'start': T(tm['start']) if tm else arr, 'end': T(tm['end']) if tm else dep}
                acts.append(act); flat.append(act)
            stops.append({'loc': sl, 'arr': arr, 'dep': dep, 'load': st['load'], 'dist': st['distance'], 'acts': acts})
        tours.append({'vix': vidx.get(t['vehicleId'], 0), 'vehicle': t['vehicleId'], 'type': t['typeId'], 'shift': t['shiftIndex'] + 1,
                      'stops': stops, 'flat': flat, 'stat': stat(t['statistic'])})
    un = [{'job': u['jobId'], 'jix': jidx.get(u['jobId'], 0), 'nreasons': len(u['reasons'])} for u in S.get('unassigned') or []]
    viol = [{'vehicle': v.get('vehicleId', v.get('vehicle_id')), 'shift': v.get('shiftIndex', v.get('shift_index')) + 1} for v in S.get('violations') or []]
    return {'tours': tours, 'unassigned': un, 'violations': viol, 'stat': stat(S['statistic'])}


def project(problem, matrices, solution, rec_id='', extra=None):
    prob, ctx = project_problem(problem, matrices)
    rec = {'id': rec_id}
    rec.update(prob)
    rec.update(project_solution(solution, ctx))
    if extra:
        rec.update(extra)
    return rec
