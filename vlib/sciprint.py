"""C13: prints an abstract instance of spec/Scientific.tla in the grammar of its format (Solomon, Li&Lim, TSPLIB CVRP EUC_2D)."""


def solomon(I):
    lines = ['GENERATED', '', 'VEHICLE', 'NUMBER     CAPACITY', '  %d         %d' % (I['k'], I['q']), '', 'CUSTOMER',
             'CUST NO.  XCOORD.   YCOORD.    DEMAND   READY TIME  DUE DATE   SERVICE   TIME', '']
    for n in [I['depot']] + list(I['custs']):
        lines.append('  %3d   %5d   %5d   %5d   %7d   %7d   %5d' % (n['id'], n['x'], n['y'], n['d'], n['s'], n['e'], n['svc']))
    return '\n'.join(lines) + '\n'


def lilim(I):
    lines = ['%d\t%d\t1' % (I['k'], I['q'])]
    d = I['depot']
    lines.append('\t'.join(str(v) for v in (0, d['x'], d['y'], 0, d['s'], d['e'], 0, 0, 0)))
    for n in I['custs']:
        pick = n['d'] > 0
        lines.append('\t'.join(str(v) for v in (n['id'], n['x'], n['y'], n['d'], n['s'], n['e'], n['svc'], 0 if pick else n['rel'], n['rel'] if pick else 0)))
    return '\n'.join(lines) + '\n'


def tsplib(I):
    nodes = sorted([I['depot']] + list(I['custs']), key=lambda n: n['id'])
    lines = ['NAME : generated', 'COMMENT : generated', 'TYPE : CVRP', 'DIMENSION : %d' % len(nodes), 'EDGE_WEIGHT_TYPE : EUC_2D', 'CAPACITY : %d' % I['q'], 'NODE_COORD_SECTION']
    lines += ['%d %d %d' % (n['id'], n['x'], n['y']) for n in nodes]
    lines.append('DEMAND_SECTION')
    lines += ['%d %d' % (n['id'], n['d']) for n in nodes]
    lines += ['DEPOT_SECTION', '%d' % I['depot']['id'], '-1', 'EOF']
    return '\n'.join(lines) + '\n'


def text(I):
    return {'solomon': solomon, 'lilim': lilim, 'tsplib': tsplib}[I['fmt']](I)
