"""C10: mechanical instantiation of an abstract document of spec/Validation.tla as pragmatic problem + matrix JSON."""
import datetime

BASE = datetime.datetime(2020, 7, 4, 0, 0, 0)


def t(h):
    if h < 0:
        return '2020-07-04 10:00'           # not an RFC3339 date
    return (BASE + datetime.timedelta(hours=h)).strftime('%Y-%m-%dT%H:%M:%SZ')


def window(w):
    if w['n'] == 1:
        return [t(w['s'])]
    if w['n'] == 3:
        return [t(w['s']), t(w['e']), t(w['e'])]
    return [t(w['s']), t(w['e'])]


def loc(l):
    if l['k'] == 'i':
        return {'index': l['v']}
    return {'lat': 52.0 + l['v'] * 0.01, 'lng': 13.0 + l['v'] * 0.01}


DUR = {'pos': 60.0, 'zero': 0.0, 'neg': -10.0, 'negzero': -0.0}


def place(p):
    r = {'location': loc(p['loc']), 'duration': DUR[p['dur']]}
    if p['hasTimes']:
        r['times'] = [window(w) for w in p['ws']]
    return r


def task(x):
    r = {'places': [place(p) for p in x['places']]}
    if x['hasDemand']:
        r['demand'] = list(x['demand'])
    if x['hasOrder']:
        r['order'] = x['order']
    return r


KIND = {'pickup': 'pickups', 'delivery': 'deliveries', 'replacement': 'replacements', 'service': 'services'}


def job(j):
    r = {'id': j['id']}
    if j['hasValue']:
        r['value'] = float(j['value'])
    for x in j['tasks']:
        r.setdefault(KIND[x['kind']], []).append(task(x))
    return r


def brk(b):
    if b['v'] == 'opt-tw':
        return {'time': [t(b['a']), t(b['b'])], 'places': [{'duration': b['dur'] * 3600.0}]}
    if b['v'] == 'opt-off':
        return {'time': [b['a'] * 3600.0, b['b'] * 3600.0], 'places': [{'duration': b['dur'] * 3600.0}]}
    if b['v'] == 'req-exact':
        return {'time': {'earliest': t(b['a']), 'latest': t(b['b'])}, 'duration': b['dur'] * 3600.0}
    return {'time': {'earliest': b['a'] * 3600.0, 'latest': b['b'] * 3600.0}, 'duration': b['dur'] * 3600.0}


def shift(s):
    start = {'earliest': t(s['earliest']), 'location': loc(s['loc'])}
    if s['hasLatest']:
        start['latest'] = t(s['latest'])
    r = {'start': start}
    if s['hasEnd']:
        r['end'] = {'latest': t(s['endLatest']), 'location': loc(s['loc'])}
    if s['hasBreaks']:
        r['breaks'] = [brk(b) for b in s['breaks']]
    if s['hasReloads']:
        r['reloads'] = []
        for x in s['reloads']:
            rl = {'location': loc(s['loc']), 'duration': 60.0}
            if x['hasTimes']:
                rl['times'] = [window(w) for w in x['ws']]
            if x['res']:
                rl['resourceId'] = x['res']
            r['reloads'].append(rl)
    return r


def vehicle(v):
    return {'typeId': v['typeId'], 'vehicleIds': list(v['ids']), 'profile': {'matrix': v['profile']},
            'costs': {'fixed': 10.0, 'distance': float(v['costDist']), 'time': float(v['costTime'])},
            'shifts': [shift(s) for s in v['shifts']], 'capacity': list(v.get('cap', [10]))}


def objective(o):
    if o['type'] == 'multi-objective':
        return {'type': 'multi-objective', 'strategy': {'name': 'sum'}, 'objectives': [{'type': x} for x in o['inner']]}
    return {'type': o['type']}


def instantiate(d):
    """-> (problem dict, list of matrix dicts or None)"""
    problem = {'plan': {'jobs': [job(j) for j in d['jobs']]},
               'fleet': {'vehicles': [vehicle(v) for v in d['vehicles']], 'profiles': [{'name': n} for n in d['profiles']]}}
    if d['hasResources']:
        problem['fleet']['resources'] = [{'type': 'reload', 'id': r, 'capacity': [5]} for r in d['resources']]
    if d['hasRelations']:
        problem['plan']['relations'] = []
        for r in d['relations']:
            x = {'type': r['type'], 'vehicleId': r['vehicle'], 'jobs': list(r['jobs'])}
            if r['hasShift']:
                x['shiftIndex'] = r['shift']
            problem['plan']['relations'].append(x)
    if d['hasObjectives']:
        problem['objectives'] = [objective(o) for o in d['objectives']]
    matrices = None
    if d['matrices']:
        matrices = []
        for i, m in enumerate(d['matrices']):
            n = m['size']
            vals = [0 if a == b else 100 + 10 * a + b for a in range(n) for b in range(n)]
            mat = {'travelTimes': vals, 'distances': vals}
            if d['profiles']:
                mat['profile'] = d['profiles'][i]
            matrices.append(mat)
    return problem, matrices
